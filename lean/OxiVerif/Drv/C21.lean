import OxiVerif.Base.Driver
import OxiVerif.Model.C21
/-!
Driver for C21.  Requests (see `harness/src/bin/c21.rs` for the call syntax):
  `prog <call>;<call>;…`   authoring program → model content bytes + model parse; answer
                           `<content hex>|<ops>`
  `bytes <hex>` / `rep <hexunit> <count>`   arbitrary bytes through the parser model; answer `<ops>`

Oracle (spec side): the operators the real parser returned for the real content must be the
authored operators (`canonAll` of the authored `Op` list: every operand as the nearest binary32 of
the decimal the writer is documented to produce, strings as the bytes before escaping), compared up
to the sign of zero, with every numeric operand finite.  Known defect classes are recognised from the
request (`fail:known:<classes>`) only when the model explains the implementation's answer exactly.
-/
open OxiVerif OxiVerif.C21

def hexNat? (s : String) : Option Nat :=
  s.toList.foldlM (fun acc c => (hexVal? c).map (acc * 16 + ·)) 0

def f64? (s : String) : Option Flt := if s.length == 16 then (hexNat? s).map ofF64Bits else none
def f32? (s : String) : Option Flt := if s.length == 8 then (hexNat? s).map ofF32Bits else none

def strBytesD (s : String) : List Nat := s.toUTF8.toList.map (·.toNat)

def size? (s : String) : Option Size :=
  match s.splitOn ":" with
  | [b, d] => (f64? b).map fun v => ⟨v, strBytesD d⟩
  | _ => none

def fs? (l : List String) : Option (List Flt) := l.mapM f64?

def color? (l : List String) : Option Color :=
  match l with
  | ["3", a, b, c] => do pure (.rgb (← f64? a) (← f64? b) (← f64? c))
  | ["1", a] => do pure (.gray (← f64? a))
  | ["4", a, b, c, d] => do pure (.cmyk (← f64? a) (← f64? b) (← f64? c) (← f64? d))
  | _ => none

def cidEl? (s : String) : Option (Nat × Flt × Flt) :=
  match s.splitOn ":" with
  | [c, a, x] => do pure ((← hexNat? c), (← f32? a), (← f32? x))
  | _ => none

def small? (s : String) (bound : Nat) : Option Nat :=
  match s.toNat? with
  | some n => if n < bound then some n else none
  | none => none

def call? (s : String) : Option Call :=
  match s.splitOn "," with
  | ["g.m", x, y] => do pure (.gMove (← f64? x) (← f64? y))
  | ["g.l", x, y] => do pure (.gLine (← f64? x) (← f64? y))
  | ["g.c", a, b, c, d, e, f] => do
    pure (.gCurve (← f64? a) (← f64? b) (← f64? c) (← f64? d) (← f64? e) (← f64? f))
  | ["g.re", x, y, w, h] => do pure (.gRect (← f64? x) (← f64? y) (← f64? w) (← f64? h))
  | ["g.h"] => some .gClose
  | ["g.S"] => some .gStroke
  | ["g.f"] => some .gFill
  | ["g.B"] => some .gFillStroke
  | ["g.n"] => some .gEndPath
  | ["g.W"] => some .gClip
  | ["g.Wx"] => some .gClipEO
  | ["g.WS"] => some .gClipStroke
  | ["g.q"] => some .gSave
  | ["g.Q"] => some .gRestore
  | "g.sc" :: r => (color? r).map .gStrokeColor
  | "g.fc" :: r => (color? r).map .gFillColor
  | ["g.w", x] => (f64? x).map .gLineWidth
  | ["g.J", n] => (small? n 3).map .gLineCap
  | ["g.j", n] => (small? n 3).map .gLineJoin
  | ["g.M", x] => (f64? x).map .gMiter
  | ["g.i", x] => (f64? x).map .gFlatness
  | "g.d" :: p :: r => do pure (.gDash (← f64? p) (← fs? r))
  | ["g.ds"] => some .gSolid
  | ["g.ri", n] => (small? n 4).map .gIntent
  | ["g.cm", a, b, c, d, e, f] => do
    pure (.gCm (← f64? a) (← f64? b) (← f64? c) (← f64? d) (← f64? e) (← f64? f))
  | ["g.tr", x, y] => do pure (.gTranslate (← f64? x) (← f64? y))
  | ["g.scl", x, y] => do pure (.gScale (← f64? x) (← f64? y))
  | ["g.Do", n, x, y, w, h] => do
    pure (.gDrawImage (← bytesOfHex? n) (← f64? x) (← f64? y) (← f64? w) (← f64? h))
  | ["g.sh", n] => (bytesOfHex? n).map .gShading
  | "g.icc" :: n :: r => do
    let vs ← fs? r
    if vs.isEmpty then none else pure (.gIccFill (← bytesOfHex? n) vs)
  | "g.ICC" :: n :: r => do
    let vs ← fs? r
    if vs.isEmpty then none else pure (.gIccStroke (← bytesOfHex? n) vs)
  | ["g.alpha", x] => (f64? x).map .gAlpha
  | ["g.op", x] => (f64? x).map .gOpacity
  | ["g.BT"] => some .gBeginText
  | ["g.ET"] => some .gEndText
  | ["g.Tf", f, s] => do pure (.gSetFont (← small? f 14) (← size? s))
  | ["g.Tfc", n, s] => do pure (.gSetCustomFont (← bytesOfHex? n) (← size? s))
  | ["g.Td", x, y] => do pure (.gTextPos (← f64? x) (← f64? y))
  | ["g.Tj", t] => (bytesOfHex? t).map .gShowText
  | ["g.Tw", x] => (f64? x).map .gWordSpacing
  | ["g.Tc", x] => (f64? x).map .gCharSpacing
  | ["g.dt", t, x, y] => do pure (.gDrawText (← bytesOfHex? t) (← f64? x) (← f64? y))
  | "g.cid" :: x :: y :: r => do pure (.gCidArray (← f64? x) (← f64? y) (← r.mapM cidEl?))
  | ["g.clip", x, y, w, h] => do pure (.gClipRect (← f64? x) (← f64? y) (← f64? w) (← f64? h))
  | ["g.bg"] => some .gBeginGroup
  | ["g.eg"] => some .gEndGroup
  | ["t.font", f, s] => do pure (.tFont (← small? f 14) (← size? s))
  | ["t.fontc", n, s] => do pure (.tFontCustom (← bytesOfHex? n) (← size? s))
  | ["t.at", x, y] => do pure (.tAt (← f64? x) (← f64? y))
  | ["t.w", t] => (bytesOfHex? t).map .tWrite
  | ["t.cs", x] => (f64? x).map .tCharSpacing
  | ["t.ws", x] => (f64? x).map .tWordSpacing
  | ["t.hs", x] => (f64? x).map .tHScale
  | ["t.ld", x] => (f64? x).map .tLeading
  | ["t.rise", x] => (f64? x).map .tRise
  | ["t.mode", n] => (small? n 8).map .tMode
  | "t.fill" :: r => (color? r).map .tFill
  | "t.stroke" :: r => (color? r).map .tStroke
  | ["t.clear"] => some .tClear
  | ["p.bdc", t] => (bytesOfHex? t).map .pBdc
  | ["p.bdca", t, u] => do pure (.pBdcActual (← bytesOfHex? t) (← bytesOfHex? u))
  | ["p.emc"] => some .pEmc
  | _ => none

/-! ### printing parsed operators (same text as the harness) -/

def hex8 (n : Nat) : String :=
  String.ofList ((List.range 8).reverse.map fun i => hexDigit (n / 16 ^ i % 16))

def showNum : Arg → String
  | .num t => "n" ++ hex8 (decToF32 t)
  | .numI i => "n" ++ hex8 (intToF32 i)
  | _ => "?"

def joinWith (sep : String) (l : List String) : String := sep.intercalate l

partial def showMc : McValue → String
  | .str b => "s" ++ hexField b
  | .int i => "i" ++ toString i
  | .real t => "n" ++ hex8 (decToF32 t)
  | .name n => "/" ++ hexField n
  | .arr xs => "[" ++ joinWith ";" (xs.map showMc) ++ "]"
  | .dict kvs => showMcDict kvs
where
  showMcDict (kvs : List (List Nat × McValue)) : String :=
    -- `HashMap::insert` in pop order: a later insert overwrites; printed sorted by key bytes
    let dedup := kvs.foldl (fun acc (kv : List Nat × McValue) => (acc.filter fun x => x.1 != kv.1) ++ [kv]) []
    let sorted := dedup.toArray.qsort (fun a b => ltBytes a.1 b.1) |>.toList
    "D{" ++ joinWith ";" (sorted.map fun kv => hexField kv.1 ++ "=" ++ showMc kv.2) ++ "}"

/-- `String::from_utf8_lossy`: printed exactly when nothing was replaced -/
def hasFFFD : List Nat → Bool
  | 239 :: 191 :: 189 :: _ => true
  | _ :: r => hasFFFD r
  | [] => false

def showLossy (s : List Nat) : String :=
  if validUtf8 s && !hasFFFD s then "s" ++ hexField s else "s?"

def showInlineVal : Token → String
  | .integer i => "i" ++ toString i
  | .number t => "n" ++ hex8 (decToF32 t)
  | .name n => "/" ++ hexField (expandInlineName n)
  | .str s => showLossy s
  | .hexStr s => showLossy s
  | _ => "null"

def showArg : Arg → String
  | .num t => "n" ++ hex8 (decToF32 t)
  | .numI i => "n" ++ hex8 (intToF32 i)
  | .int i => "i" ++ toString i
  | .name n => "/" ++ hexField n
  | .str s => "s" ++ hexField s
  | .nums xs => "[" ++ joinWith ";" (xs.map showNum) ++ "]"
  | .textArr xs => "[" ++ joinWith ";" (xs.map fun a => match a with
      | .str s => "s" ++ hexField s
      | a => showNum a) ++ "]"
  | .propsRef n => "R/" ++ hexField n
  | .propsInline kvs => showMc.showMcDict kvs
  | .inlineParams kvs =>
    let dedup := kvs.foldl (fun acc (kv : List Nat × Token) => (acc.filter fun x => x.1 != kv.1) ++ [kv]) []
    let strs := dedup.map fun kv => hexField kv.1 ++ "=" ++ showInlineVal kv.2
    "D{" ++ joinWith ";" (strs.toArray.qsort (· < ·)).toList ++ "}"

def kwString (k : List Nat) : String := String.ofList (k.map Char.ofNat)

def showParsed (p : Parsed) : String :=
  kwString p.kw ++ "(" ++ joinWith "," (p.args.map showArg) ++ ")"

def showOps (ps : List Parsed) : String :=
  if ps.isEmpty then "." else joinWith " " (ps.map showParsed)

/-! ### oracle helpers -/

/-- numbers are compared up to the sign of zero -/
def normZero (s : String) : String := s.replace "n80000000" "n00000000"

def hasInf (s : String) : Bool :=
  (s.splitOn "n7f800000").length > 1 || (s.splitOn "nff800000").length > 1

/-- defect class: a `Tf` whose size is printed by `Display` as an integer that does not fit `i32` -/
def badSize : Op → Bool
  | .setFont _ size disp => size.isFinite && !disp.contains 46 && (parseI32 disp).isNone
  | _ => false

/-- defect class: `clip_rect` with a non-finite argument (`{:.3}` of NaN/inf, not sanitised) -/
def badClip : Op → Bool
  | .rawClipRect x y w h => !(x.isFinite && y.isFinite && w.isFinite && h.isFinite)
  | _ => false

def sizeParamOk : Op → Bool
  | .setFont _ size disp => !size.isFinite || dispOk size disp
  | _ => true

def repeatBytes (u : List Nat) : Nat → List Nat → List Nat
  | 0, acc => acc
  | n + 1, acc => repeatBytes u n (u ++ acc)

def crashed (impl : String) : Bool :=
  impl.startsWith "panic" || impl.startsWith "abort" || impl.startsWith "timeout"

def handleBytes (bs : List Nat) (impl : String) : String × String :=
  let m := match parseContent bs with
    | some ps => showOps ps
    | none => impl   -- inline-image fallback path with numbers: `f32` Display is not modelled
  (m, if crashed impl then "fail:crash:" ++ (impl.splitOn ":").head! else "ok")

def handle (req impl : String) : String × String :=
  match req.splitOn " " with
  | ["prog", p] =>
    let calls? := if p == "." then some [] else (p.splitOn ";").mapM call?
    match calls? with
    | none => ("bad-request", "na")
    | some calls =>
      let ops := pageOpsOf (runCalls calls)
      if !ops.all sizeParamOk then ("bad-display-parameter", "fail:harness-display-parameter")
      else
        let bytes := serializeOps fmtReal ops
        let implOps := match impl.splitOn "|" with
          | [_, o] => o
          | _ => "?"
        let mOps := match parseContent bytes with
          | some ps => showOps ps
          | none => implOps
        let model := hexField bytes ++ "|" ++ mOps
        let expected := showOps (canonAll fmtReal ops)
        -- font sizes beyond i32 (C21-F1) and non-finite clip_rect arguments (C21-F2) are repaired:
        -- they are no longer excused
        let classes := (if hasInf expected then ["f32-overflow"] else [])
        let oracle :=
          if crashed impl then "fail:crash:" ++ (impl.splitOn ":").head!
          else if implOps == "?" then "fail:no-parse-result:" ++ impl.take 40
          else if classes.isEmpty then
            (if normZero implOps == normZero expected then "ok" else "fail:ops-differ-from-authored")
          else if impl == model then "fail:known:" ++ "+".intercalate classes
          else "fail:unexplained-deviation:" ++ "+".intercalate classes
        (model, oracle)
  | ["bytes", h] =>
    match bytesOfHex? h with
    | some bs => handleBytes bs impl
    | none => ("bad-request", "na")
  | ["rep", h, n] =>
    match bytesOfHex? h, n.toNat? with
    | some u, some k =>
      if k > 50000000 then ("bad-request", "na") else handleBytes (repeatBytes u k []) impl
    | _, _ => ("bad-request", "na")
  | _ => ("bad-request", "na")

def main : IO Unit := runDriver handle
