import OxiVerif.Base.Driver
import OxiVerif.Model.C14
import OxiVerif.Model.C14Spec
import OxiVerif.Model.C14Graph
/-!
Driver for C14.  Request / answer syntax: see `harness/src/bin/c14.rs`.
  `<seq|graph> <max> <merge> <propagate> <S|A> <ctx> <counter> <elements>`
MODEL  = the model's chunks printed in the harness's syntax.
ORACLE = the property's spec side evaluated on the implementation's answer:
  every chunk non-empty; `text()` is the "\n"-join of the elements' display texts;
  `token_estimate = count(text)`; `¬oversized → count(text) ≤ max` (skipped for a counter that
  lies about its additivity); the chunk elements cover the input exactly once, in order
  (`coversB`); the heading rule (graph mode: the heading of the title governing the chunk's first
  element — the most recent earlier title it names, else the nearest preceding title);
  determinism (the harness answers `nondeterministic` otherwise).
Graph mode reasons `graph-order` (accepted as known finding C14-F2 only for input WITH a stale
heading), `graph-drop` / `graph-sum` (repaired C14-F1 / C14-F3: no open finding matches them).
Failure reasons are listed in a fixed order, `;`-separated.
-/
open OxiVerif OxiVerif.C14

namespace C14Drv

def strOfHex? (s : String) : Option Str := do
  let bs ← bytesOfHex? s
  let ba := ByteArray.mk (bs.map (fun b => UInt8.ofNat b)).toArray
  let str ← String.fromUTF8? ba
  pure str.toList

def hexOfStr (s : Str) : String :=
  hexField ((String.ofList s).toUTF8.toList.map (·.toNat))

def optStrOfHex? (s : String) : Option (Option Str) :=
  if s = "~" then some none else (strOfHex? s).map some

def hexOfOptStr : Option Str → String
  | none => "~"
  | some s => hexOfStr s

def kindOf? : String → Option Kind
  | "T" => some .title | "P" => some .paragraph | "B" => some .table | "H" => some .header
  | "F" => some .footer | "L" => some .listItem | "I" => some .image | "C" => some .codeBlock
  | "V" => some .keyValue | _ => none

def kindStr : Kind → String
  | .title => "T" | .paragraph => "P" | .table => "B" | .header => "H" | .footer => "F"
  | .listItem => "L" | .image => "I" | .codeBlock => "C" | .keyValue => "V"

def parsePayload (k : Kind) (p : String) : Option Payload :=
  match k with
  | .image => (optStrOfHex? p).map .image
  | .keyValue =>
    match p.splitOn "=" with
    | [a, b] => do pure (.kv (← strOfHex? a) (← strOfHex? b))
    | _ => none
  | .table =>
    if p = "." then some (.table [])
    else do
      let rows ← (p.splitOn "|").mapM fun r =>
        if r = "_" then some [] else (r.splitOn ":").mapM strOfHex?
      pure (.table rows)
  | _ => (strOfHex? p).map .text

def showPayload : Payload → String
  | .text s => hexOfStr s
  | .image a => hexOfOptStr a
  | .kv k v => hexOfStr k ++ "=" ++ hexOfStr v
  | .table rows =>
    if rows.isEmpty then "."
    else "|".intercalate (rows.map fun r =>
      if r.isEmpty then "_" else ":".intercalate (r.map hexOfStr))

def parseElem (s : String) : Option Elem :=
  match s.splitOn "," with
  | [k, id, page, ph, hp, font, p] => do
    let kind ← kindOf? k
    let id ← id.toNat?
    let page ← page.toNat?
    let ph ← optStrOfHex? ph
    let hp ← if hp = "." then some [] else (hp.splitOn "/").mapM strOfHex?
    let (fname, flags) ← match font.splitOn ":" with
      | [a, b] => some (a, b)
      | _ => none
    let fname ← optStrOfHex? fname
    let flags ← flags.toNat?
    let payload ← parsePayload kind p
    pure { kind := kind, payload := payload,
           md := { id := id, page := page, parentHeading := ph, headingPath := hp,
                   fontName := fname, fontSize := flags / 4 % 2 == 1, bold := flags % 2 == 1,
                   italic := flags / 2 % 2 == 1 } }
  | _ => none

def showElem (e : Elem) : String :=
  let m := e.md
  let hp := if m.headingPath.isEmpty then "." else "/".intercalate (m.headingPath.map hexOfStr)
  let flags := (if m.bold then 1 else 0) + (if m.italic then 2 else 0) + (if m.fontSize then 4 else 0)
  s!"{kindStr e.kind},{m.id},{m.page},{hexOfOptStr m.parentHeading},{hp},{hexOfOptStr m.fontName}:{flags},{showPayload e.payload}"

def parseElems (s : String) : Option (List Elem) :=
  if s = "." then some [] else (s.splitOn ";").mapM parseElem

def showChunk (c : Chunk) : String :=
  let ov := if c.oversized then "1" else "0"
  s!"{hexOfOptStr c.heading}!{ov}!{c.tokenEstimate}!{hexOfStr c.text}!{";".intercalate (c.elements.map showElem)}"

def showChunks (cs : List Chunk) : String :=
  if cs.isEmpty then "." else "#".intercalate (cs.map showChunk)

/-- an implementation chunk as reported: the model `Chunk` fields + the reported `text()` -/
structure IChunk where
  c : Chunk
  text : Str

def parseIChunk (s : String) : Option IChunk :=
  match s.splitOn "!" with
  | [h, ov, te, tx, es] => do
    let h ← optStrOfHex? h
    let te ← te.toNat?
    let tx ← strOfHex? tx
    let es ← parseElems es
    pure { c := { elements := es, heading := h, oversized := ov == "1", tokenEstimate := te }, text := tx }
  | _ => none

def parseIChunks (s : String) : Option (List IChunk) :=
  if s = "." then some [] else (s.splitOn "#").mapM parseIChunk

/-- counter by name; second component: does the counter tell the truth about its additivity?
    third: is it in fact additive across "\n"? -/
def counterOf? : String → Option (Counter × Bool × Bool)
  | "wp" => some (wordProxy, true, true)
  | "nws1" => some (⟨nwsCount, true⟩, true, true)
  | "nws0" => some (⟨nwsCount, false⟩, true, true)
  | "c31" => some (⟨c3Count, true⟩, false, false)
  | "c30" => some (⟨c3Count, false⟩, true, false)
  | _ => none

/-- stable insertion sort by id -/
def insById (e : Elem) : List Elem → List Elem
  | [] => [e]
  | x :: r => if e.md.id < x.md.id then e :: x :: r else x :: insById e r
def sortById (l : List Elem) : List Elem := l.foldl (fun acc e => insById e acc) []

/-- spec: the title governing position `p` of a non-title element = the most recent earlier title
    whose text is the element's `parent_heading` -/
def governingTitle (pre : List Elem) (ph : Option Str) : Option Elem :=
  match ph with
  | none => none
  | some h => (pre.reverse.find? fun t => t.isTitle && decide (t.text = h))

/-- spec: the section an element after the first title belongs to = its governing title, else (it
    names nothing / no earlier title) the nearest preceding title -/
def sectionTitle (pre : List Elem) (ph : Option Str) : Option Elem :=
  match governingTitle pre ph with
  | some t => some t
  | none => pre.reverse.find? Elem.isTitle

/-- input elements (with their prefix) that belong to no section although they come after the first title -/
def unsectioned : List Elem → List Elem → List Elem
  | _, [] => []
  | pre, e :: rest =>
    let r := unsectioned (pre ++ [e]) rest
    if !e.isTitle && pre.any Elem.isTitle && (governingTitle pre e.md.parentHeading).isNone then e :: r else r

def findWithPrefix (id : Nat) : List Elem → List Elem → Option (List Elem × Elem)
  | _, [] => none
  | pre, e :: rest => if e.md.id = id then some (pre, e) else findWithPrefix id (pre ++ [e]) rest

def expectedHeading (graph : Bool) (cfg : Config) (inp : List Elem) (c : Chunk) : Option (Option Str) :=
  match c.elements with
  | [] => none
  | f :: _ =>
    if !graph then some (elemHeading cfg f)
    else
      match findWithPrefix f.md.id [] inp with
      | none => none
      | some (pre, e) =>
        if !(pre.any Elem.isTitle) && !e.isTitle then some (elemHeading cfg f)
        else if e.isTitle then some (titleHeading e)
        else (sectionTitle pre e.md.parentHeading).map titleHeading

def oracle (graph : Bool) (cfg : Config) (cnt : Counter) (truthful additiveNl : Bool)
    (inp : List Elem) (ics : List IChunk) : String :=
  let out := ics.flatMap (·.c.elements)
  let r : List String := []
  -- partition
  let r := r ++
    (if coversB out inp then []
     else if !graph then ["partition"]
     else
       let outIds := out.map (·.md.id)
       let missing := inp.filter fun e => !outIds.contains e.md.id
       let uns := unsectioned [] inp
       let r1 := if missing.isEmpty then []
                 else if missing.all (fun e => uns.contains e) then ["graph-drop"] else ["partition-missing"]
       let rest := inp.filter fun e => outIds.contains e.md.id
       let r2 := if coversB out rest then []
                 else if coversB (sortById out) (sortById rest) && !(noStale [] inp) then ["graph-order"]
                 else ["partition-order-or-content"]
       let r12 := r1 ++ r2
       if r12.isEmpty then ["partition"] else r12)
  -- budget
  let badBudget := ics.filter fun ic => !ic.c.oversized && decide (cnt.count ic.text > cfg.maxTokens)
  let r := r ++
    (if !truthful || badBudget.isEmpty then []
     else if graph && !additiveNl && badBudget.all (fun ic =>
          match ic.c.elements with
          | t :: _ :: _ => t.isTitle &&
              decide ((ic.c.elements.map fun e => cnt.count e.display).foldl (· + ·) 0 ≤ cfg.maxTokens)
          | _ => false) then ["graph-sum"]
     else ["budget"])
  let r := r ++ (if ics.all (fun ic => ic.c.tokenEstimate == cnt.count ic.text) then [] else ["token-estimate"])
  let r := r ++ (if ics.all (fun ic => ic.text == textOf ic.c.elements) then [] else ["text-not-join-of-elements"])
  let r := r ++ (if ics.all (fun ic => !ic.c.elements.isEmpty) then [] else ["empty-chunk"])
  let r := r ++ (if ics.all (fun ic => expectedHeading graph cfg inp ic.c == some ic.c.heading) then [] else ["heading"])
  if r.isEmpty then "ok" else "fail:" ++ ";".intercalate r

def handle (req impl : String) : String × String :=
  match req.splitOn " " with
  | [mode, max, merge, prop, policy, _ctx, cname, elems] =>
    match max.toNat?, counterOf? cname, parseElems elems with
    | some max, some (cnt, truthful, addNl), some inp =>
      if mode ≠ "seq" ∧ mode ≠ "graph" then ("bad-request", "na") else
      let graph := mode == "graph"
      let cfg : Config := { maxTokens := max, mergeAdjacent := merge == "1",
                            propagateHeadings := prop == "1", sameTypeOnly := policy == "S" }
      -- graph mode: the LITERAL index-based transcription (both title maps, parent/children
      -- vectors, unattached pass, sort) answers; the fused pass the theorems are about must agree
      let cs := if graph then chunkWithGraphLit cfg cnt inp else chunk cfg cnt inp
      let m := showChunks cs
      let m := if graph && m != showChunks (chunkWithGraph cfg cnt inp)
               then "model-internal:fused-pass-differs-from-literal-graph:" ++ m else m
      let o :=
        if impl = "nondeterministic" then "fail:nondeterministic"
        else match parseIChunks impl with
          | some ics => oracle graph cfg cnt truthful addNl inp ics
          | none => "fail:unparsable-impl-answer"
      (m, o)
    | _, _, _ => ("bad-request", "na")
  | _ => ("bad-request", "na")

end C14Drv

def main : IO Unit := runDriver C14Drv.handle
