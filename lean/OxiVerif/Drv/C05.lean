import OxiVerif.Base.Driver
import OxiVerif.Model.C05
/-!
Driver for C05.  Request: `doc <strength> <cfg> <user> <owner> <perm> <title> <author> <texts> <annot>`
(see harness/src/bin/c05.rs).  IMPL = `<flags> # <details>`.

MODEL  = the flags `Model.C05.outcome` predicts for the configuration and the annotation keys
         (+ the implementation's detail part, which is not predicted).
ORACLE = the property: /Encrypt and /ID announced, reader reports encrypted, permissions as
         written, both passwords give exactly the plaintext build's content, a wrong password
         is refused.
-/
open OxiVerif OxiVerif.C05

def parseCfg (s : String) : C05.Cfg :=
  ⟨s.toList.contains 'x', s.toList.contains 'o', s.toList.contains 'c'⟩

def annotKeysOf (s : String) : List String :=
  if s = "-" then [] else (s.splitOn ",").map fun kv => (kv.splitOn ":").headD ""

def handle (req impl : String) : String × String :=
  match req.splitOn " " with
  | ["doc", _st, cfg, _u, _o, _perm, _title, _author, _texts, annot] =>
    let (flags, details) := match impl.splitOn " # " with
      | [a, b] => (a, b)
      | _ => (impl, "")
    let m := outcome (parseCfg cfg) (annotKeysOf annot) ++ " # " ++ details
    let want := "E1 I1 enc1 perm:same user:ok-same owner:ok-same wrong:refused"
    let o :=
      if flags = want then "ok"
      else
        let fs := flags.splitOn " "
        let ws := want.splitOn " "
        let bad := (List.zip fs ws).filter (fun (a, b) => a ≠ b) |>.map (·.1)
        -- which part of the content differs (plain[..] vs user[..] of the detail part)
        let part := fun (tag : String) (blk : String) =>
          ((blk.splitOn (tag ++ "=")).getD 1 "").splitOn " " |>.headD ""
        let pl := ((details.splitOn "plain[").getD 1 "").splitOn "]" |>.headD ""
        let us := ((details.splitOn "user[").getD 1 "").splitOn "]" |>.headD ""
        let diffs := ["p", "t", "a", "s", "n"].filter fun t => part t pl ≠ part t us
        let names := diffs.map fun t => match t with
          | "p" => "pages" | "t" => "title" | "a" => "author" | "s" => "streams" | _ => "annots"
        "fail:" ++ ",".intercalate bad ++ ":" ++ "+".intercalate names
    (m, o)
  | _ => ("bad-request", "na")

def main : IO Unit := runDriver handle
