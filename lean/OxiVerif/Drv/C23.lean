import OxiVerif.Base.Driver
import OxiVerif.Model.C23
/-!
Driver for C23 (requests: see harness/src/bin/c23.rs).

MODEL  = the answer of `Model/C23.lean` (the transcription of the Rust code over the reference
         primitives).  For functions that draw randomness (IV, salts, /Perms tail) the model
         answer is the implementation's answer when it verifies against the reference
         (decrypt / recompute with the drawn salt), `spec-mismatch` otherwise.
ORACLE = the specification side: published algorithm on the same inputs (`Spec.Crypto*`).
-/
open OxiVerif OxiVerif.Crypto OxiVerif.C23

def B (s : String) : Option Bytes := (bytesOfHex? s).map bytesOfNats
def H (b : Bytes) : String := hexField (natsOfBytes b)
def optId (s : String) : Option (Option Bytes) := if s = "none" then some none else (B s).map some

def okHex : Option Bytes → String
  | some b => "ok:" ++ H b
  | none => "err"

def okBool : Option Bool → String
  | some true => "true"
  | some false => "false"
  | none => "err"

def showAes : AesRes → String
  | .ok b => "ok:" ++ H b
  | .keylen => "err:keylen"
  | .ivlen => "err:ivlen"
  | .enc => "err:enc"
  | .dec => "err:dec"
  | .pad => "err:pad"

/-- decode UTF-8 (the harness only sends valid UTF-8 passwords) into code points -/
def codePoints (b : Bytes) : List Nat :=
  (String.fromUTF8? ⟨(b.map id).toArray⟩).map (fun s => s.toList.map Char.toNat) |>.getD []

/-- PDFDocEncoding (ISO 32000-1 Annex D.2) of one code point, where defined -/
def pdfDocByte (c : Nat) : Option UInt8 :=
  if c < 0x18 ∨ (0x20 ≤ c ∧ c < 0x7F) ∨ (0xA1 ≤ c ∧ c ≤ 0xFF ∧ c ≠ 0xAD) then some (UInt8.ofNat c)
  else
    let tab : List (Nat × Nat) := [
      (0x02D8, 0x18), (0x02C7, 0x19), (0x02C6, 0x1A), (0x02D9, 0x1B), (0x02DD, 0x1C), (0x02DB, 0x1D),
      (0x02DA, 0x1E), (0x02DC, 0x1F), (0x2022, 0x80), (0x2020, 0x81), (0x2021, 0x82), (0x2026, 0x83),
      (0x2014, 0x84), (0x2013, 0x85), (0x0192, 0x86), (0x2044, 0x87), (0x2039, 0x88), (0x203A, 0x89),
      (0x2212, 0x8A), (0x2030, 0x8B), (0x201E, 0x8C), (0x201C, 0x8D), (0x201D, 0x8E), (0x2018, 0x8F),
      (0x2019, 0x90), (0x201A, 0x91), (0x2122, 0x92), (0xFB01, 0x93), (0xFB02, 0x94), (0x0141, 0x95),
      (0x0152, 0x96), (0x0160, 0x97), (0x0178, 0x98), (0x017D, 0x99), (0x0131, 0x9A), (0x0142, 0x9B),
      (0x0153, 0x9C), (0x0161, 0x9D), (0x017E, 0x9E), (0x20AC, 0xA0)]
    (tab.lookup c).map UInt8.ofNat

/-- the PDFDocEncoding bytes of a UTF-8 password when every character has one -/
def pdfDocOf (utf8 : Bytes) : Option Bytes := (codePoints utf8).mapM pdfDocByte

def isAscii (b : Bytes) : Bool := b.all (· < 0x80)

/-- oracle for the R2–R4 password algorithms: `specOn` evaluated on the PDFDocEncoding of the
passwords must equal the implementation's answer. -/
def pwOracle (pws : List Bytes) (impl : String) (specOn : List Bytes → String) : String :=
  if pws.all isAscii then (if specOn pws = impl then "ok" else "fail:differs-from-algorithm")
  else match pws.mapM pdfDocOf with
    | some enc => if specOn enc = impl then "ok" else "fail:password-utf8-not-pdfdocencoding"
    | none =>
      -- no PDFDocEncoding exists for some character: the standard does not say; the UTF-8
      -- bytes are the only candidate
      if specOn pws = impl then "ok" else "fail:differs-from-algorithm"

def cmp (model impl : String) : String := if model = impl then "ok" else "fail:differs-from-reference"

def handleStr (op r k num g d impl : String) : String × String :=
  let bad := ("bad-request", "na")
  match r.toNat?, B k, num.toNat?, g.toNat?, B d with
  | some r, some k, some num, some g, some d =>
    match op with
    | "decstr" => let m := "ok:" ++ H (decryptString r k num g d); (m, cmp m impl)
    | "decaes" => let m := okHex (decryptAes r k num g d); (m, cmp m impl)
    | "encstr" | "encaes" =>
      if r ≤ 3 then
        if op = "encaes" then ("err", "na")
        else let m := "ok:" ++ H (rc4 (objKey k num g false) d); (m, cmp m impl)
      else
        match aesObjKey r k num g with
        | none => (if op = "encstr" then "ok:-" else "err", "na")
        | some _ =>
          -- random IV: the reference decryptor (Algorithm 1 / 1.A) must give the input back
          match B (impl.drop 3).toString with
          | some c =>
            let cfm := if r = 4 then 2 else 3
            if impl.startsWith "ok:" ∧ decryptData cfm k num g c = some d ∧
               c.length = 16 + (d.length / 16 + 1) * 16 then (impl, "ok")
            else ("spec-mismatch", "fail:reference-decryptor-does-not-recover-the-plaintext")
          | none => ("spec-mismatch", "fail:unparsable")
    | _ => bad
  | _, _, _, _, _ => bad

def parseBits (s : String) : Option (List Bool) :=
  if s.length = 8 then some (s.toList.map (· = '1')) else none
def showBits (l : List Bool) : String := String.ofList (l.map fun b => if b then '1' else '0')

def toU32 (p : Int) : Nat := (p % 4294967296).toNat

def handle (req impl : String) : String × String :=
  let bad := ("bad-request", "na")
  match req.splitOn " " with
  | ["rc4", k, d1, d2] =>
    match B k, B d1, B d2 with
    | some k, some d1, some d2 =>
      if k.isEmpty then (impl, "na") else
      let m := H (rc4 k (d1 ++ d2))
      -- spec side: decrypting the implementation's output gives the input back
      let o := match B impl with
        | some c => if rc4 k c = d1 ++ d2 then cmp m impl else "fail:rc4-does-not-decrypt"
        | none => "fail:unparsable"
      (m, o)
    | _, _, _ => bad
  | ["aes", mode, k, iv, d] =>
    match B k, B iv, B d with
    | some k, some iv, some d =>
      -- `AesKey::new_128/new_256` reject the key before any other check
      if k.length ≠ 16 ∧ k.length ≠ 32 then ("err:keylen", "na") else
      let m := match mode with
        | "cbce" => showAes (aesEncryptCbc k iv d)
        | "cbcd" => showAes (aesDecryptCbc k iv d)
        | "ecbe" => showAes (aesEncryptEcb k d)
        | "ecbd" => showAes (aesDecryptEcb k d)
        | "rawe" => showAes (aesEncryptCbcRaw k iv d)
        | "rawd" => showAes (aesDecryptCbcRaw k iv d)
        | _ => "bad-request"
      -- spec side: a produced ciphertext decrypts (by the reference) to the input
      let o :=
        if (k.length = 16 ∨ k.length = 32) ∧ iv.length = 16 ∧ mode = "cbce" then
          match (impl.drop 3).toString |> B with
          | some c => if impl.startsWith "ok:" ∧ aesCbcPadDec k iv c = some d ∧ c.length = (d.length / 16 + 1) * 16
                      then cmp m impl else "fail:cbc-output-does-not-decrypt-to-input"
          | none => "fail:unparsable"
        else if (k.length = 16 ∨ k.length = 32) then cmp m impl else "na"
      (m, o)
    | _, _, _ => bad
  | ["ohash", r, n, op, up] =>
    match r.toNat?, n.toNat?, B op, B up with
    | some r, some n, some op, some up =>
      let f := fun (l : List Bytes) => match l with
        | [a, b] => H (alg3 r n a b)
        | _ => ""
      (H (computeOwnerHash r n op up), if r ≤ 4 then pwOracle [op, up] impl f else "na")
    | _, _, _, _ => bad
  | [op, r, n, up, o, p, id] =>
    if op = "encstr" ∨ op = "decstr" ∨ op = "encaes" ∨ op = "decaes" then handleStr op r up o p id impl else
    match r.toNat?, n.toNat?, B up, B o, p.toNat?, optId id with
    | some r, some n, some up, some o, some p, some id =>
      match op with
      | "ekey" =>
        let f := fun (l : List Bytes) => "ok:" ++ H (alg2 r n (l.headD []) o p (id.getD []) true)
        ("ok:" ++ H (computeEncryptionKey r n up o p id true), if r ≤ 4 then pwOracle [up] impl f else "na")
      | "uhash" =>
        -- the 16 arbitrary bytes of Algorithm 5 are not compared by the oracle
        let f := fun (l : List Bytes) =>
          let u := computeU r n (l.headD []) o p (id.getD []) true
          "ok:" ++ H (if r = 2 then u else u.take 16 ++ ((B (impl.drop 3).toString).getD []).drop 16)
        ("ok:" ++ H (computeUserHash r n up o p id true), if r ≤ 4 then pwOracle [up] impl f else "na")
      | "aeskey" => (if r ≥ 5 then "ok:" ++ H (computeAesKey up o p id) else "err", "na")
      | _ => bad
    | _, _, _, _, _, _ => bad
  | ["vuser", r, n, up, u, o, p, id] =>
    match r.toNat?, n.toNat?, B up, B u, B o, p.toNat?, optId id with
    | some r, some n, some up, some u, some o, some p, some id =>
      let m := okBool (some (validateUserPassword r n up u o p id))
      -- Algorithm 6 on the same bytes
      let o := if r ≤ 4 then
          (if ((alg6 r n up o u p (id.getD []) true).isSome = (impl = "true")) then "ok" else "fail:algorithm-6-disagrees")
        else "na"
      (m, o)
    | _, _, _, _, _, _, _ => bad
  | ["vowner", r, n, op, o, p, id, u] =>
    match r.toNat?, n.toNat?, B op, B o, p.toNat?, optId id, optId u with
    | some r, some n, some op, some o, some _p, some _id, some u =>
      if r ≤ 4 then
        let m := okBool (some (validateOwnerPassword r n op o _p _id u))
        -- Algorithm 7 on the same /O, /U, /P, /ID: the owner password is authentic iff the user
        -- password recovered from /O passes Algorithm 6
        let spec : Bool := match u with
          | some u => (alg7 r n op o u _p (_id.getD []) true).isSome
          | none => false
        (m, if u.isNone then "na" else if spec = decide (impl = "true") then "ok"
            else if spec then
              -- classify by the padded user password Algorithm 7 recovers from /O
              let rec32 := alg7recover r n op o
              let cut := rec32.takeWhile (· ≠ 0x28)
              let why := if rec32 = pwPadding then "user-password-empty"
                else if padPassword cut ≠ rec32 then "paren-in-user-password"
                else if utf8Lossy cut ≠ cut then "utf8-cut-at-32"
                else "other"
              "fail:authentic-owner-password-rejected:" ++ why
            else "fail:owner-password-accepted-that-algorithm-7-refuses")
      else
        let m := match u with
          | none => "err"
          | some u => okBool (validateOwner56 r op o u)
        let o' := match u with
          | none => "na"
          | some u => if (alg12 r (op.take 127) o u (List.replicate 32 0)).isSome = (impl = "true") then "ok" else "fail:algorithm-12-disagrees"
        (m, o')
    | _, _, _, _, _, _, _ => bad
  | ["objkey", _r, _n, k, num, g] =>
    match B k, num.toNat?, g.toNat? with
    | some k, some num, some g => let m := H (objKey k num g false); (m, cmp m impl)
    | _, _, _ => bad
  | ["hash", alg, d] =>
    match B d with
    | some d =>
      let r : Option Bytes := match alg with
        | "md5" => some (md5 d) | "sha256" => some (sha256 d)
        | "sha384" => some (sha384 d) | "sha512" => some (sha512 d) | _ => none
      match r with
      | some h => (H h, cmp (H h) impl)
      | none => bad
    | none => bad
  | ["h2b", p, s, u] =>
    match B p, B s, B u with
    | some p, some s, some u =>
      let m := okHex (alg2bCode p s u)
      (m, if p.length ≤ 127 then cmp ("ok:" ++ H (alg2b p s u)) impl else "na")
    | _, _, _ => bad
  | ["uent", r, p] =>
    match r.toNat?, B p, B (impl.drop 3).toString with
    | some r, some p, some u =>
      if impl.startsWith "ok:" ∧ u.length = 48 ∧ alg8U r (p.take 127) (vSalt u) (kSalt u) = u then (impl, "ok")
      else ("spec-mismatch", "fail:U-is-not-Algorithm-8-for-its-salts")
    | _, _, _ => ("spec-mismatch", "fail:unparsable")
  | ["oent", r, p, u] =>
    match r.toNat?, B p, B u, B (impl.drop 3).toString with
    | some r, some p, some u, some o =>
      if impl.startsWith "ok:" ∧ o.length = 48 ∧ alg9O r (p.take 127) (vSalt o) (kSalt o) u = o then (impl, "ok")
      else ("spec-mismatch", "fail:O-is-not-Algorithm-9-for-its-salts")
    | _, _, _, _ => ("spec-mismatch", "fail:unparsable")
  | ["ue", r, p, u, k] =>
    match r.toNat?, B p, B u, B k with
    | some r, some p, some u, some k =>
      let m := okHex (computeUE r p u k)
      (m, if u.length = 48 ∧ k.length = 32 then cmp ("ok:" ++ H (alg8UE r (p.take 127) (kSalt u) k)) impl else "na")
    | _, _, _, _ => bad
  | ["oe", r, p, o, u, k] =>
    match r.toNat?, B p, B o, B u, B k with
    | some r, some p, some o, some u, some k =>
      let m := okHex (computeOE r p o u k)
      (m, if o.length = 48 ∧ u.length = 48 ∧ k.length = 32 then cmp ("ok:" ++ H (alg9OE r (p.take 127) (kSalt o) u k)) impl else "na")
    | _, _, _, _, _ => bad
  | ["recu", r, p, u, ue] =>
    match r.toNat?, B p, B u, B ue with
    | some r, some p, some u, some ue =>
      let m := okHex (recoverUser56 r p u ue)
      -- when Algorithm 11 accepts, the recovered key must be the reference's
      let o := match alg11 r (p.take 127) u ue with
        | some k => if ue.length = 32 then cmp ("ok:" ++ H k) impl else "na"
        | none => "na"
      (m, o)
    | _, _, _, _ => bad
  | ["reco", r, p, o, u, oe] =>
    match r.toNat?, B p, B o, B u, B oe with
    | some r, some p, some o, some u, some oe =>
      let m := okHex (recoverOwner56 r p o u oe)
      let orc := match alg12 r (p.take 127) o u oe with
        | some k => if oe.length = 32 then cmp ("ok:" ++ H k) impl else "na"
        | none => "na"
      (m, orc)
    | _, _, _, _, _ => bad
  | ["valu", r, p, u] =>
    match r.toNat?, B p, B u with
    | some r, some p, some u =>
      let m := okBool (validateUser56 r p u)
      let spec := (alg11 r (p.take 127) u (List.replicate 32 0)).isSome
      (m, if u.length < 48 then "na" else if spec = (impl = "true") then "ok" else "fail:algorithm-11-disagrees")
    | _, _, _ => bad
  | ["valo", r, p, o, u] =>
    match r.toNat?, B p, B o, B u with
    | some r, some p, some o, some u =>
      let m := okBool (validateOwner56 r p o u)
      let spec := (alg12 r (p.take 127) o u (List.replicate 32 0)).isSome
      (m, if o.length < 48 ∨ u.length < 48 then "na" else if spec = (impl = "true") then "ok" else "fail:algorithm-12-disagrees")
    | _, _, _, _ => bad
  | ["perms", _r, p, k, em] =>
    match p.toNat?, B k, B (impl.drop 3).toString with
    | some p, some k, some c =>
      if k.length ≠ 32 then ("err", "na")
      else match aesEcbDec k c with
        | some d =>
          if impl.startsWith "ok:" ∧ c.length = 16 ∧ d.take 12 = (permsPlain p (em = "1") []).take 12 ∧
             alg13 k c = some (le32OfNat p, decide (em = "1")) then (impl, "ok")
          else ("spec-mismatch", "fail:Perms-is-not-Algorithm-10")
        | none => ("spec-mismatch", "fail:unparsable")
    | _, _, _ => ("spec-mismatch", "fail:unparsable")
  | ["vperms", _r, k, c, p] =>
    match B k, B c, p.toNat? with
    | some k, some c, some p =>
      let m := okBool (validatePerms c k p) ++ " " ++ extractEncryptMetadata c k
      -- Algorithm 13: "adb" present and P equal  ⇒ accepted; P different ⇒ not accepted
      let o := match alg13 k c with
        | some (pb, _) =>
          if (pb = le32OfNat p) = (impl.startsWith "true") then "ok" else "fail:algorithm-13-disagrees"
        | none => if impl.startsWith "true" then "fail:algorithm-13-disagrees" else "ok"
      (m, o)
    | _, _, _ => bad
  | ["pflags", s] =>
    match parseBits s with
    | some fl =>
      let bits := permFromFlags fl
      let m := toString bits ++ " " ++ showBits (permFlags bits)
      -- Table 22: flag k set ⇔ its bit set; reserved bits 1–2 clear, 7–8 and 13–32 set; flags read back
      let o := match impl.splitOn " " with
        | [b, back] => match b.toNat? with
          | some b =>
            if back ≠ s then "fail:flags-do-not-read-back"
            else if (List.zip permBitIdx fl).all (fun (i, f) => b.testBit i = f) ∧ b % 4 = 0 ∧
                    b.testBit 6 ∧ b.testBit 7 ∧ b / 4096 = 0xFFFFF then "ok"
            else "fail:bit-layout-differs-from-table-22"
          | none => "fail:unparsable"
        | _ => "fail:unparsable"
      (m, o)
    | none => bad
  | ["pbits", a, b] =>
    match a.toNat?, b.toNat? with
    | some a, some b =>
      let cleared := permSetAll a false
      let m := " ".intercalate [toString a, showBits (permFlags a), toString (permContains a b), toString cleared,
        toString (permSetAll cleared true), toString permNew, toString permAll]
      (m, cmp m impl)
    | _, _ => bad
  | ["unlock", who, r, v, _len, cfm, em, o, u, p, id, ue, oe, pw] =>
    match r.toNat?, v.toNat?, B o, B u, p.toInt?, optId id, optId ue, optId oe, B pw with
    | some r, some v, some o, some u, some p, some id, some ue, some oe, some pw =>
      let cfmO : Option String := if cfm = "none" then none else some cfm
      let emO : Option Bool := if em = "1" then some true else if em = "0" then some false else none
      let d : EncDict := ⟨r, v, cfmO, emO, o, u, toU32 p, id, ue, oe⟩
      let res := if who = "user" then unlockUser d pw else unlockOwner d pw
      let m := match res with
        | .newErr => "err:new"
        | .err => "err"
        | .refused => "false"
        | .key k => "true:" ++ H k
      -- spec: Algorithms 6 / 7 (R2–R4, key length from the revision/filter as the code assumes:
      -- 5 for R2, 16 otherwise) and 11 / 12 (R5/R6) on the same dictionary and password bytes
      let n := if r = 2 then 5 else 16
      let emv := d.em.getD true
      let spec : Option Bytes :=
        if r ≤ 4 then
          (if who = "user" then alg6 r n pw o u d.p (id.getD []) emv else alg7 r n pw o u d.p (id.getD []) emv)
        -- Algorithm 2.A (a): the UTF-8 password is truncated to 127 bytes
        else if who = "user" then alg11 r (pw.take 127) u (ue.getD []) else alg12 r (pw.take 127) o u (oe.getD [])
      let orc := match spec with
        | some k => if impl = "true:" ++ H k then "ok" else "fail:right-password-not-accepted-or-wrong-key"
        | none => if impl.startsWith "true" then "fail:password-accepted-that-the-algorithm-refuses" else "ok"
      (m, orc)
    | _, _, _, _, _, _, _, _, _ => bad
  | _ => bad

def main : IO Unit := runDriver handle
