import OxiVerif.Base.Driver
import OxiVerif.Spec.C06Reader
/-!
Driver for C06 (requests: harness/src/bin/c06.rs).

`lib …`  IMPL = `u[view] o[view] w[view] # <encrypted file> <plain file>`, both files written by the
         REAL library, the views are the REAL reader's raw objects of the encrypted file.
         MODEL  = the same three views computed by the reference reader (Spec/C06Reader).
         ORACLE = the property, library → independent implementation: the trailer announces the
                  encryption, user and owner password authenticate (same key), a wrong one does
                  not, /P is the requested word, and every object of the encrypted file decrypts
                  to the corresponding object of the plain build (strings, stream data, stream
                  dictionaries; object numbers shifted by the /Encrypt object; dates of the two
                  builds not compared); every ciphertext is what the reference writer produces
                  for the recovered plaintext and the IV found in the file.
`ind …`  IMPL = `u[view] o[view] w[view] # <encrypted file>`, the file written by the independent
         encoder (harness/src/bin/c06_enc), the views by the REAL reader.
         MODEL  = the three views of the reference reader.
         ORACLE = (1) the reference reader recovers exactly the authored content and the
                  reference writer reproduces every ciphertext (this validates the encoder — a
                  failure here is `fail:reference-…`), (2) independent implementation → library:
                  the library's views are the authored content (`fail:lib-read …`).
-/
open OxiVerif OxiVerif.C06 OxiVerif.Spec.Syntax OxiVerif.Crypto

namespace C06Drv

def strOfBytes (b : NBytes) : String := String.ofList (b.map Char.ofNat)

def md5hex (d : NBytes) : String := hexOfBytes (natsOfBytes (md5 (bytesOfNats d)))

def deref (objs : List IObj) (o : Obj) : Option (Obj × Option NBytes) :=
  match o with
  | .ref n _ => (findObj objs n).map fun io => (io.val, io.data)
  | o => some (o, none)

def listOf (objs : List IObj) (o : Option Obj) : List Obj :=
  match o with
  | none => []
  | some (.arr l) => l
  | some (.ref n g) =>
    match deref objs (.ref n g) with
    | some (.arr l, _) => l
    | _ => [.ref n g]
  | some x => [x]

def dictStrings (o : Obj) : String :=
  let l := (entriesOf o).filterMap fun (k, v) => match v with
    | .str b => some (strOfBytes k ++ ":" ++ hexField b)
    | .hexstr b => some (strOfBytes k ++ ":" ++ hexField b)
    | _ => none
  ",".intercalate (l.mergeSort fun a b => decide (a ≤ b))

def nz (v : List String) : String := if v.all (·.isEmpty) then "-" else "/".intercalate v

/-- one page: annotation strings, content-stream digests, strings of the content-stream dictionaries -/
def pageView (objs : List IObj) (k : Obj) : String × String × List String :=
  match deref objs k with
  | some (page, _) =>
    let an : List String := (listOf objs (oget page "Annots")).map fun a => match deref objs a with
      | some (d, _) => dictStrings d
      | none => "err"
    let cs : List (String × String) := (listOf objs (oget page "Contents")).map fun c => match deref objs c with
      | some (d, some data) => (md5hex data, dictStrings d)
      | _ => ("err", "")
    (";".intercalate an, "+".intercalate (cs.map Prod.fst), (cs.map Prod.snd).filter (fun s => !s.isEmpty))
  | none => ("err", "err", [])

/-- the raw view of a (decrypted) object list — the same traversal as `lib_view` of the harness -/
def view (objs : List IObj) (trailer : Obj) (key : Bytes) (p : Nat) : String :=
  let info := (oget trailer "Info").bind (deref objs)
  let fld := fun (k : String) => match info with
    | none => "noinfo"
    | some (d, _) => match oget d k with
      | some (.str b) => hexField b
      | some (.hexstr b) => hexField b
      | some _ => "nostr"
      | none => "none"
  let head := s!"ok k={hexField (natsOfBytes key)} p={p} t={fld "Title"} a={fld "Author"}"
  match (oget trailer "Root").bind (deref objs) with
  | none => head ++ " n=err s=err x=err d=err"
  | some (cat, _) =>
    let x := match oget cat "Metadata" with
      | none => "none"
      | some m => match deref objs m with
        | some (_, some d) => md5hex d
        | _ => "err"
    let kids := match (oget cat "Pages").bind (deref objs) with
      | some (pg, _) => listOf objs (oget pg "Kids")
      | none => []
    let per := kids.map (pageView objs)
    let ns := if kids.isEmpty then ["err"] else per.map (fun t => t.1)
    let ss := per.map (fun t => t.2.1)
    let ds := (per.map (fun t => t.2.2)).flatten
    head ++ s!" n={nz ns} s={nz ss} x={x} d={nz ds}"

/-- what the reference reader shows for one password -/
def viewWith (f : File) (enc : Option Enc) (pw : Bytes) : String :=
  match enc with
  | none => "notenc"
  | some e =>
    if !supported e then "err:unsupported"
    else match unlock e pw with
      | none => "refused"
      | some key =>
        match decryptFile f e key with
        | .ok objs => view objs f.trailer key e.p
        | .error m => "err:" ++ m

/-! ### comparison of two object lists (direction `lib`) -/

mutual
def beqObj : Obj → Obj → Bool
  | .null, .null => true
  | .bool a, .bool b => a == b
  | .int a, .int b => a == b
  | .real a, .real b => a == b
  | .str a, .str b => a == b
  | .str a, .hexstr b => a == b
  | .hexstr a, .str b => a == b
  | .hexstr a, .hexstr b => a == b
  | .name a, .name b => a == b
  | .arr a, .arr b => beqList a b
  | .dict a, .dict b => beqEntries a b
  | .ref a b, .ref c d => a == c && b == d
  | _, _ => false
def beqList : List Obj → List Obj → Bool
  | [], [] => true
  | a :: r, b :: s => beqObj a b && beqList r s
  | _, _ => false
def beqEntries : List (NBytes × Obj) → List (NBytes × Obj) → Bool
  | [], [] => true
  | (k, a) :: r, (l, b) :: s => k == l && beqObj a b && beqEntries r s
  | _, _ => false
end

mutual
def mapRefs (f : Nat → Nat) : Obj → Obj
  | .ref n g => .ref (f n) g
  | .arr l => .arr (mapRefsList f l)
  | .dict l => .dict (mapRefsEntries f l)
  | o => o
def mapRefsList (f : Nat → Nat) : List Obj → List Obj
  | [] => []
  | o :: r => mapRefs f o :: mapRefsList f r
def mapRefsEntries (f : Nat → Nat) : List (NBytes × Obj) → List (NBytes × Obj)
  | [] => []
  | (k, v) :: r => (k, mapRefs f v) :: mapRefsEntries f r
end

/-- what legitimately differs between the two builds and is not compared: the `D:…` dates (the
builds are written at different instants), the library's `/oxidize-pdf-features` build-flag
string (it records that encryption was used), and `/Length` of a stream (AES adds IV and
padding; the data itself is compared) -/
def dropDates (o : Obj) : Obj :=
  match o with
  | .dict kvs => .dict (kvs.map fun (k, v) =>
      if k == kw "CreationDate" ∨ k == kw "ModDate" then
        match v with
        | .str (68 :: 58 :: _) => (k, .null)
        | .hexstr (68 :: 58 :: _) => (k, .null)
        | _ => (k, v)
      else if k == kw "oxidize-pdf-features" ∨ k == kw "Length" then (k, .null)
      else (k, v))
  | o => o

/-- A stream whose `/Filter` names `Crypt` without `/DecodeParms`: by Table 14 that is the
Identity crypt filter, i.e. the dictionary SAYS the data is not encrypted.  Returns the object with
the `Crypt` name removed (so that `/StmF` applies) and whether it was such a stream. -/
def stripBogusCrypt (o : IObj) : IObj × Bool :=
  if o.data.isSome ∧ (filterNames (oget o.val "Filter")).contains (kw "Crypt") ∧ (oget o.val "DecodeParms").isNone then
    let kvs := (entriesOf o.val).filterMap fun (k, v) =>
      if k == kw "Filter" then
        match v with
        | .arr l =>
          let l' := l.filter fun x => match x with | .name n => n != kw "Crypt" | _ => true
          if l'.isEmpty then none else some (k, .arr l')
        | _ => none
      else some (k, v)
    ({ o with val := .dict kvs }, true)
  else (o, false)

/-- blank the text of an XML element (the XMP packet of each build carries its own nanosecond
time stamps) -/
def maskTag (tag : String) (s : String) : String :=
  let opn := "<" ++ tag ++ ">"
  let cls := "</" ++ tag ++ ">"
  match s.splitOn opn with
  | [] => s
  | h :: rest => h ++ "".intercalate (rest.map fun piece =>
      opn ++ cls ++ cls.intercalate ((piece.splitOn cls).drop 1))

def sameData (xmp : Bool) (a b : Option NBytes) : Bool :=
  match a, b with
  | none, none => true
  | some x, some y =>
    if xmp then
      let m := fun (d : NBytes) =>
        maskTag "xmp:MetadataDate" (maskTag "xmp:ModifyDate" (maskTag "xmp:CreateDate" (strOfBytes d)))
      m x == m y
    else x == y
  | _, _ => false

/-- first difference between the decrypted objects of the encrypted build and the plain build -/
def compareBuilds (encObjs : List IObj) (encNum : Option Nat) (plain : List IObj) : Option String :=
  let eo := (encObjs.filter fun o => some o.num != encNum && !isName (oget o.val "Type") "XRef")
  let po := plain.filter fun o => !isName (oget o.val "Type") "XRef"
  if eo.length != po.length then some "object-count"
  else
    let en := (eo.map (·.num)).mergeSort fun a b => decide (a ≤ b)
    let pn := (po.map (·.num)).mergeSort fun a b => decide (a ≤ b)
    let tab := en.zip pn
    let f := fun n => ((tab.find? fun e => e.1 == n).map (·.2)).getD n
    let bad := eo.filterMap fun o =>
      match findObj po (f o.num) with
      | none => some s!"missing:{o.num}"
      | some q =>
        if !beqObj (dropDates (mapRefs f o.val)) (dropDates q.val) then
          let a := entriesOf (dropDates (mapRefs f o.val))
          let b := entriesOf (dropDates q.val)
          let keys := (a.filter fun (k, v) => match dget b (strOfBytes k) with
            | some w => !beqObj v w
            | none => true).map fun e => "/" ++ strOfBytes e.1
          let gone := (b.filter fun (k, _) => (dget a (strOfBytes k)).isNone).map fun e => "-/" ++ strOfBytes e.1
          some ((if o.data.isSome then s!"stream-dict:{o.num}" else s!"object:{o.num}") ++ "".intercalate (keys ++ gone))
        else if !sameData (isName (oget o.val "Type") "Metadata") o.data q.data then some s!"stream-data:{o.num}"
        else none
    match bad with
    | [] => none
    | l => some (",".intercalate (l.take 4))

/-- every ciphertext of the file is what the reference WRITER produces from the recovered plaintext
with the IV found in the file (`none` = all reproduced) -/
def reencryptCheck (f : File) (e : Enc) (key : Bytes) : Option String :=
  let chk := fun (m num gen : Nat) (c : NBytes) =>
    match decBytes m key num gen c with
    | none => false
    | some p => encBytes m key num gen (bytesOfNats (c.take 16)) p == c
  let bad := f.objs.filterMap fun o =>
    if e.objNum == some o.num ∨ isName (oget o.val "Type") "XRef" then none
    else
      let sOk := (decTree (fun c => if chk e.strM o.num o.gen c then some c else none) o.val).isSome
      let dOk := match o.data with
        | none => true
        | some d => chk (streamMethod e o.val) o.num o.gen d
      if sOk && dOk then none else some s!"{o.num}"
  match bad with
  | [] => none
  | l => some (",".intercalate (l.take 4))

/-! ### request / answer plumbing -/

def splitViews (s : String) : Option (String × String × String) :=
  -- `u[..] o[..] w[..]`
  match s.splitOn "] o[" with
  | [a, rest] =>
    match rest.splitOn "] w[" with
    | [b, c] => some ((a.drop 2).toString, b, (c.dropEnd 1).toString)
    | _ => none
  | _ => none

/-- names of the view fields in which two views differ -/
def viewDiff (a b : String) : String :=
  let fa := a.splitOn " "
  let fb := b.splitOn " "
  if fa.length != fb.length ∨ fa.head? != fb.head? then "unlock"
  else
    let names := (fa.zip fb).filterMap fun (x, y) =>
      if x == y then none else some ((x.splitOn "=").headD "?")
    "+".intercalate names

def pwOf (h : String) : Option Bytes := (bytesOfHex? h).map bytesOfNats

/-- the harness' "neither" password `\x01#wrong#\x01` -/
def wrongPw (_u _o : Bytes) : Bytes := [1, 0x23, 0x77, 0x72, 0x6F, 0x6E, 0x67, 0x23, 1]

def handleLib (f : List String) (impl : String) : String × String :=
  match f, impl.splitOn " # " with
  | [_, _st, _cfg, u, o, perm, _, _, _, _], [_views, files] =>
    match pwOf u, pwOf o, perm.toNat?, files.splitOn " " with
    | some upw, some opw, some p, [eh, ph] =>
      match (bytesOfHex? eh), (bytesOfHex? ph) with
      | some eb, some pb =>
        match parseFile eb, parseFile pb with
        | .ok ef, .ok pf =>
          match parseEnc ef with
          | .error m => (s!"err:{m} # {files}", s!"fail:lib-write:encrypt-dict:{m}")
          | .ok enc =>
            -- the library marks every encrypted stream that had no /Filter with `/Filter /Crypt`
            -- (finding F1); everything else is checked on the file with those marks removed
            let stripped := ef.objs.map stripBogusCrypt
            let bogus := (stripped.filter (·.2)).map fun x => s!"{x.1.num}"
            let lf : File := ⟨stripped.map (·.1), ef.trailer⟩
            let m := s!"u[{viewWith lf enc upw}] o[{viewWith lf enc opw}] w[{viewWith lf enc (wrongPw upw opw)}]"
            let orc : String :=
              match enc with
              | none => "fail:lib-write:not-announced"
              | some e =>
                if !supported e then "fail:lib-write:unsupported-parameters"
                else match authUser e upw, authOwner e opw with
                  | none, _ => "fail:lib-write:user-password-rejected"
                  | _, none => "fail:lib-write:owner-password-rejected"
                  | some k1, some k2 =>
                    if k1 != k2 then "fail:lib-write:keys-differ"
                    else if !permsOk e k1 then "fail:lib-write:perms-entry"
                    else if e.p != p then "fail:lib-write:permissions"
                    else if (unlock e (wrongPw upw opw)).isSome then "fail:lib-write:wrong-password-accepted"
                    else match decryptFile lf e k1, plainObjects pf with
                      | .ok objs, .ok pobjs =>
                        match compareBuilds objs e.objNum pobjs with
                        | some d => "fail:lib-write:content:" ++ d
                        | none =>
                          match reencryptCheck lf e k1 with
                          | some d => "fail:lib-write:ciphertext-not-reproduced:" ++ d
                          | none =>
                            if bogus.isEmpty then "ok"
                            else "fail:lib-write:identity-crypt-filter-on-encrypted-stream:" ++ ",".intercalate bogus
                      | .error m, _ => "fail:lib-write:decrypt:" ++ m
                      | _, .error m => "fail:plain-build:" ++ m
            (m ++ " # " ++ files, orc)
        | .error m, _ => (s!"err:{m} # {files}", "fail:lib-write:file-syntax:" ++ m)
        | _, .error m => (s!"err:{m} # {files}", "na")
      | _, _ => ("bad-hex", "na")
    | _, _, _, _ => ("bad-request", "na")
  | _, _ => (impl, if impl.startsWith "err:" then "na" else "na")

def hexLower (b : NBytes) : NBytes := (hexOfBytes b).toList.map Char.toNat

def contentOf (text : NBytes) : NBytes := kw "BT /F1 12 Tf 50 700 Td <" ++ hexLower text ++ kw "> Tj ET"

def xmpOf (title : NBytes) : NBytes :=
  kw "<?xpacket begin='' id='W5M0MpCehiHzreSzNTczkc9d'?><x:xmpmeta xmlns:x='adobe:ns:meta/'><t>" ++ hexLower title ++
    kw "</t></x:xmpmeta><?xpacket end='r'?>"

def parseAnnot (s : String) : Option (List (String × NBytes)) :=
  if s = "-" then some []
  else (s.splitOn ",").mapM fun kv =>
    match kv.splitOn ":" with
    | [k, v] => (bytesOfHex? v).map fun b => (k, b)
    | _ => none

/-- the view the authored content must give (key and unlock status aside) -/
def expectedView (flags : String) (key : Bytes) (p : Nat) (title author : NBytes) (texts : List NBytes)
    (annot : List (String × NBytes)) : String :=
  let an := ",".intercalate ((annot.map fun (k, v) => k ++ ":" ++ hexField v).mergeSort fun a b => decide (a ≤ b))
  let ns := (List.range texts.length).map fun i => if i == 0 then an else ""
  let ss := texts.map fun t => md5hex (contentOf t)
  let x := if flags.toList.contains 'x' then md5hex (xmpOf title) else "none"
  let d := if flags.toList.contains 'd' then "Note:" ++ hexField author else "-"
  s!"ok k={hexField (natsOfBytes key)} p={p} t={hexField title} a={hexField author} n={nz ns} s={nz ss} x={x} d={d}"

def handleInd (f : List String) (impl : String) : String × String :=
  match f, impl.splitOn " # " with
  | [_, _sch, flags, u, o, perm, title, author, texts, annot, _seed], [views, fileHex] =>
    match pwOf u, pwOf o, perm.toNat?, bytesOfHex? title, bytesOfHex? author,
          (texts.splitOn ",").mapM bytesOfHex?, parseAnnot annot, bytesOfHex? fileHex with
    | some upw, some opw, some p, some ti, some au, some txs, some an, some fb =>
      match parseFile fb with
      | .error m => ("err:" ++ m, "fail:reference-reader:file-syntax:" ++ m)
      | .ok ef =>
        match parseEnc ef with
        | .ok (some e) =>
          let vu := viewWith ef (some e) upw
          let vo := viewWith ef (some e) opw
          let vw := viewWith ef (some e) (wrongPw upw opw)
          let m := s!"u[{vu}] o[{vo}] w[{vw}]"
          let orc : String :=
            match authUser e upw, authOwner e opw with
            | some k1, some k2 =>
              let want := expectedView flags k1 p ti au txs an
              if k1 != k2 then "fail:reference-reader:keys-differ"
              else if !permsOk e k1 then "fail:reference-reader:perms-entry"
              else if vu != want then "fail:reference-reader:user-view:" ++ viewDiff vu want
              else if vo != want then "fail:reference-reader:owner-view:" ++ viewDiff vo want
              else if vw != "refused" then "fail:reference-reader:wrong-password-accepted"
              else match reencryptCheck ef e k1 with
                | some d => "fail:reference-writer:" ++ d
                | none =>
                  match splitViews views with
                  | none => "fail:lib-read:answer-shape"
                  | some (lu, lo, lw) =>
                    let parts := (if lu != want then ["u:" ++ viewDiff lu want] else []) ++
                      (if lo != want then ["o:" ++ viewDiff lo want] else []) ++
                      (if lw != "refused" then ["w:accepted"] else [])
                    if parts.isEmpty then "ok" else "fail:lib-read " ++ " ".intercalate parts
            | none, _ => "fail:reference-reader:user-password-rejected"
            | _, none => "fail:reference-reader:owner-password-rejected"
          (m ++ " # " ++ fileHex, orc)
        | .ok none => ("notenc", "fail:reference-reader:not-announced")
        | .error m => ("err:" ++ m, "fail:reference-reader:encrypt-dict:" ++ m)
    | _, _, _, _, _, _, _, _ => ("bad-request", "na")
  | _, _ => (impl, "na")

def handle (req impl : String) : String × String :=
  let f := req.splitOn " "
  match f.head? with
  | some "lib" => handleLib f impl
  | some "ind" => handleInd f impl
  | _ => ("bad-request", "na")

end C06Drv

def main : IO Unit := OxiVerif.runDriver C06Drv.handle
