import OxiVerif.Base.Driver
import OxiVerif.Model.C28
/-!
Driver for C28 (request / answer grammar: see `harness/src/bin/c28.rs`).

MODEL  = the link graph the transcription of `write_outline_tree` produces (ids relative to the
         outline root, pool = 1..total), with authored titles / destinations per item.
ORACLE = the written graph, read the way a viewer does (follow /First and /Next from the root,
         checking /Parent, /Prev, /Last), shows exactly the authored forest, every /Count is
         Table 153's, every /Dest names the authored page; named destinations resolve.
  `fail:links-sibling-position`        navigation fails and the graph is exactly the one the code
                                       produced before repair C28-F1 (sibling ids looked up by position)
  `fail:count-closed-all-descendants`  some closed item's /Count is −(all descendants), as before
                                       repair C28-F2
  (both joined by `+` when both occur); every other deviation gets its own `fail:` reason
-/
open OxiVerif OxiVerif.C28

structure PItem where
  isOpen : Bool
  tid : Nat
  dest : Option (Nat × Char)
  deriving Repr, Inhabited

/-- authored forest: shape for the model + per-item payload in pre-order -/
partial def parseItems (cs : List Char) (acc : List Item) (pay : List PItem) :
    Option (List Item × List PItem × List Char) :=
  match cs with
  | c :: r =>
    if c = 'o' ∨ c = 'c' then
      let ds := r.takeWhile Char.isDigit
      let r := r.dropWhile Char.isDigit
      match (String.ofList ds).toNat?, r with
      | some tid, '.' :: r =>
        let destParse : Option (Option (Nat × Char) × List Char) :=
          match r with
          | '-' :: r' => some (none, r')
          | _ =>
            let ps := r.takeWhile Char.isDigit
            match (String.ofList ps).toNat?, r.dropWhile Char.isDigit with
            | some p, k :: r' => if k = 'F' ∨ k = 'X' ∨ k = 'H' ∨ k = 'B' then some (some (p, k), r') else none
            | _, _ => none
        match destParse with
        | some (dest, '[' :: r) =>
          -- payload is collected in pre-order: this item first, then its subtree
          match parseItems r [] (⟨c = 'o', tid, dest⟩ :: pay) with
          | some (kids, pay', ']' :: r') =>
            parseItems r' (Item.mk (c = 'o') kids :: acc) pay'
          | _ => none
        | _ => none
      | _, _ => none
    else some (acc.reverse, pay, cs)
  | [] => some (acc.reverse, pay, [])

def parseForest (s : String) : Option (List Item × List PItem) :=
  if s = "_" then some ([], []) else
  match parseItems s.toList [] [] with
  | some (items, pay, []) => some (items, pay.reverse)
  | _ => none

def titleOf (tid : Nat) : List Nat :=
  let d := (toString tid).toList.map Char.toNat
  match tid % 5 with
  | 0 => 84 :: d
  | 1 => [83, 101, 99, 32, 40] ++ d ++ [41]
  | 2 => [66, 92] ++ d
  | 3 => [195, 156] ++ d
  | _ => d ++ [41, 40]

def kindName : Char → String
  | 'F' => "Fit" | 'X' => "XYZ" | 'H' => "FitH" | _ => "FitB"

def showDest : Option (Nat × Char) → String
  | none => "-"
  | some (p, k) => s!"{p}/{kindName k}"

def showOptNat : Option Nat → String
  | none => "-"
  | some n => toString n

def showOptInt : Option Int → String
  | none => "-"
  | some n => toString n

def showRec (r : Rec) (p : PItem) : String :=
  s!"{r.id}:P{r.parent}:p{showOptNat r.prev}:n{showOptNat r.next}:f{showOptNat r.first}:l{showOptNat r.last}:c{showOptInt r.count}:t{hexField (titleOf p.tid)}:d{showDest p.dest}"

def showGraph (g : Root × List Rec) (pay : List PItem) : String :=
  if g.2.isEmpty then "none" else
  "|".intercalate (s!"R:F{showOptNat g.1.first}:L{showOptNat g.1.last}:C{showOptInt g.1.count}" ::
    (List.zip g.2 pay).map fun (r, p) => showRec r p)

/-! ### parsing the implementation's answer -/

def optNat? (s : String) : Option (Option Nat) :=
  if s = "-" then some none else s.toNat?.map some

def optInt? (s : String) : Option (Option Int) :=
  if s = "-" then some none else s.toInt?.map some

def dropTag (s : String) (tag : Char) : Option String :=
  match s.toList with
  | c :: r => if c = tag then some (String.ofList r) else none
  | [] => none

structure IRec where
  r : Rec
  title : String
  dest : String
  deriving Inhabited

def parseIRec (s : String) : Option IRec :=
  match s.splitOn ":" with
  | [id, p, pv, nx, f, l, c, t, d] =>
    match id.toNat?, (dropTag p 'P').bind String.toNat?, (dropTag pv 'p').bind optNat?,
      (dropTag nx 'n').bind optNat?, (dropTag f 'f').bind optNat?, (dropTag l 'l').bind optNat?,
      (dropTag c 'c').bind optInt?, dropTag t 't', dropTag d 'd' with
    | some id, some p, some pv, some nx, some f, some l, some c, some t, some d =>
      some ⟨⟨id, p, pv, nx, f, l, c⟩, t, d⟩
    | _, _, _, _, _, _, _, _, _ => none
  | _ => none

def parseRoot (s : String) : Option Root :=
  match s.splitOn ":" with
  | ["R", f, l, c] =>
    match (dropTag f 'F').bind optNat?, (dropTag l 'L').bind optNat?, (dropTag c 'C').bind optInt? with
    | some f, some l, some c => some ⟨f, l, c⟩
    | _, _, _ => none
  | _ => none

def parseGraph (s : String) : Option (Root × List IRec) :=
  if s = "none" then some (⟨none, none, none⟩, []) else
  match s.splitOn "|" with
  | r :: items =>
    match parseRoot r, items.mapM parseIRec with
    | some r, some is => some (r, is)
    | _, _ => none
  | [] => none

/-! ### the viewer's walk compared with the authored forest -/

/-- pre-order walk of the navigated forest against the authored one; returns the remaining
payload and the list of problems found -/
partial def compareNav (irecs : List IRec) : List Nav → List Item → List PItem →
    Option (List PItem × List String)
  | [], [], pay => some (pay, [])
  | .node id cnt kids :: ns, it :: is, p :: pay =>
    let ir := irecs.find? (·.r.id = id)
    let probs : List String :=
      (match ir with
       | some ir =>
         (if ir.title = hexField (titleOf p.tid) then [] else ["title"]) ++
         (if ir.dest = showDest p.dest then [] else ["dest"])
       | none => ["title"]) ++
      (if cnt = Spec.countEntry it then []
       else if cnt = it.countEntryOld then ["count-closed-all-descendants"] else ["count"])
    match compareNav irecs kids it.children pay with
    | none => none
    | some (pay', p1) =>
      match compareNav irecs ns is pay' with
      | none => none
      | some (pay'', p2) => some (pay'', probs ++ p1 ++ p2)
  | _, _, _ => none

def dedup (l : List String) : List String := l.eraseDups

/-- named destinations: authored `name=page` pairs (insertion order) vs the written name tree -/
def judgeNames (authored : String) (written : String) : String :=
  let pairs := (authored.splitOn ",").filterMap fun e =>
    match e.splitOn "=" with
    | [n, p] => p.toNat?.map fun p => (n, p)
    | _ => none
  let keys := ((pairs.map (·.1)).eraseDups).mergeSort (fun a b => a ≤ b)
  let want := keys.filterMap fun k =>
    ((pairs.filter (·.1 = k)).getLast?).map fun (n, p) => s!"{n}={p}/Fit"
  if written = ",".intercalate want then "ok" else "fail:named-destinations"

def splitNames (s : String) : String × Option String :=
  match s.splitOn " N:" with
  | [g, n] => (g, some n)
  | _ => (s, none)

def handle (req impl : String) : String × String :=
  let go (forest : String) (names : Option String) : String × String :=
    match parseForest forest with
    | none => ("bad-request", "na")
    | some (items, pay) =>
      let total := sizeList items
      let pool := List.range' 1 total
      let code := Impl.write 0 pool items
      let namesModel : String := match names with
        | none => ""
        | some a =>
          -- BTreeMap<String, _>: ascending keys, later insertions replace
          let pairs := (a.splitOn ",").filterMap fun e =>
            match e.splitOn "=" with
            | [n, p] => some (n, p)
            | _ => none
          let keys := ((pairs.map (·.1)).eraseDups).mergeSort (fun a b => a ≤ b)
          " N:" ++ ",".intercalate (keys.filterMap fun k =>
            ((pairs.filter (·.1 = k)).getLast?).map fun (n, p) => s!"{n}={p}/Fit")
      let model := showGraph code pay ++ namesModel
      let (implGraph, implNames) := splitNames impl
      let oracle : String :=
        match parseGraph implGraph with
        | none => "fail:unreadable-outline"
        | some (root, irecs) =>
          let recs := irecs.map (·.r)
          if items.isEmpty then (if recs.isEmpty then "ok" else "fail:items") else
          if recs.length ≠ total then "fail:items"
          else if root.count ≠ some (Int.ofNat (visibleList items)) then "fail:root-count"
          else
            let fuel := 2 * total + 4
            let nav := match root.first, root.last with
              | some f, some l => navChain recs 0 (some l) fuel (some f) none
              | _, _ => none
            let navProblems : Option (List String) := match nav with
              | none => none
              | some nv => match compareNav irecs nv items pay with
                | some ([], ps) => some ps
                | _ => none
            match navProblems with
            | some ps =>
              let ps := dedup ps
              if ps.isEmpty then "ok" else "fail:" ++ "+".intercalate ps
            | none =>
              -- not navigable as authored.  Is it exactly the defect repaired as C28-F1?
              let spec := Spec.write 0 pool items
              let code := ImplOld.write 0 pool items
              let linkOnly (r : Rec) : Rec := { r with count := none }
              let sameLinksAsCode := root.first = code.1.first ∧ root.last = code.1.last ∧
                recs.map linkOnly = code.2.map linkOnly
              let payloadOk := (List.zip irecs pay).all fun (ir, p) =>
                ir.title = hexField (titleOf p.tid) ∧ ir.dest = showDest p.dest
              if sameLinksAsCode ∧ payloadOk ∧ (code.1, code.2.map linkOnly) ≠ (spec.1, spec.2.map linkOnly) then
                -- counts, judged per id (ids are the pre-order positions here)
                let cs := (List.zip recs spec.2).zip code.2 |>.map fun ((r, s), c) =>
                  if r.count = s.count then 0 else if r.count = c.count then 1 else 2
                if cs.any (· = 2) then "fail:links+count"
                else if cs.any (· = 1) then "fail:links-sibling-position+count-closed-all-descendants"
                else "fail:links-sibling-position"
              else "fail:links"
      let oracle := if oracle ≠ "ok" then oracle else
        match names, implNames with
        | some a, some w => judgeNames a w
        | none, none => "ok"
        | _, _ => "fail:named-destinations"
      (model, oracle)
  match req.splitOn " " with
  | [op, _np, forest] => if op = "out" ∨ op = "outb" then go forest none else ("bad-request", "na")
  | [op, _np, forest, names] =>
    if op = "out" ∨ op = "outb" then go forest (some names) else ("bad-request", "na")
  | _ => ("bad-request", "na")

def main : IO Unit := runDriver handle
