import OxiVerif.Base.Driver
import OxiVerif.Model.C28
import OxiVerif.Model.C28Dest
/-!
Driver for C28 (request / answer grammar: see `harness/src/bin/c28.rs`).

MODEL  = the link graph the transcription of `write_outline_tree` produces (ids relative to the
         outline root, pool = 1..total), with authored titles / destinations per item.
ORACLE = the written graph, read the way a viewer does (follow /First and /Next from the root,
         checking /Parent, /Prev, /Last), shows exactly the authored forest, every /Count is
         Table 153's, every /Dest names the authored page; named destinations resolve.
  `fail:links-sibling-position`        navigation fails and the graph is exactly the one the code
                                       produced before repair C28-F1 (sibling ids looked up by position)
  `fail:count-closed-all-descendants`  some closed item's /Count is −(all descendants), as before
                                       repair C28-F2
  (both joined by `+` when both occur); every other deviation gets its own `fail:` reason
-/
open OxiVerif OxiVerif.C28

structure PItem where
  isOpen : Bool
  tid : Nat
  dest : Option Dest
  deriving Repr, Inhabited

/-! ### destinations in request syntax: `<page><K>[(p;p;…)]`, p = `n` | integer (millionths) -/

def arityOf : Char → Option Nat
  | 'F' => some 0 | 'B' => some 0 | 'X' => some 3 | 'R' => some 4
  | 'H' => some 1 | 'V' => some 1 | 'G' => some 1 | 'W' => some 1
  | _ => none

def parseIntChars (cs : List Char) : Option Int :=
  match cs with
  | '-' :: r => (String.ofList r).toNat?.map fun n => - Int.ofNat n
  | _ => (String.ofList cs).toNat?.map Int.ofNat

def parseParam (s : String) : Option (Option Int) :=
  if s = "n" then some none else (parseIntChars s.toList).map some

def mkDest (page : DPage) (k : Char) (ps : List (Option Int)) : Option Dest :=
  match k, ps with
  | 'F', [] => some ⟨page, .fit⟩
  | 'B', [] => some ⟨page, .fitB⟩
  | 'X', [l, t, z] => some ⟨page, .xyz l t z⟩
  | 'H', [t] => some ⟨page, .fitH t⟩
  | 'V', [l] => some ⟨page, .fitV l⟩
  | 'G', [t] => some ⟨page, .fitBH t⟩
  | 'W', [l] => some ⟨page, .fitBV l⟩
  | 'R', [some l, some b, some r, some t] => some ⟨page, .fitR l b r t⟩
  | _, _ => none

/-- parses a destination at the head of `cs`; returns it and the rest (`-` = none) -/
def parseDestChars (cs : List Char) : Option (Option Dest × List Char) :=
  match cs with
  | '-' :: r => some (none, r)
  | _ =>
    let ps := cs.takeWhile Char.isDigit
    match (String.ofList ps).toNat?, cs.dropWhile Char.isDigit with
    | some p, k :: r =>
      match arityOf k with
      | none => none
      | some n =>
        match r with
        | '(' :: r' =>
          let inner := r'.takeWhile (· ≠ ')')
          match r'.dropWhile (· ≠ ')') with
          | ')' :: rest =>
            match ((String.ofList inner).splitOn ";").mapM parseParam with
            | some params => (mkDest (.num p) k params).map fun d => (some d, rest)
            | none => none
          | _ => none
        | _ => (mkDest (.num p) k (List.replicate n none)).map fun d => (some d, r)
    | _, _ => none

def parseDestStr (s : String) : Option (Option Dest) :=
  match parseDestChars s.toList with
  | some (d, []) => some d
  | _ => none

/-- authored forest: shape for the model + per-item payload in pre-order -/
partial def parseItems (cs : List Char) (acc : List Item) (pay : List PItem) :
    Option (List Item × List PItem × List Char) :=
  match cs with
  | c :: r =>
    if c = 'o' ∨ c = 'c' then
      let ds := r.takeWhile Char.isDigit
      let r := r.dropWhile Char.isDigit
      match (String.ofList ds).toNat?, r with
      | some tid, '.' :: r =>
        match parseDestChars r with
        | some (dest, '[' :: r) =>
          -- payload is collected in pre-order: this item first, then its subtree
          match parseItems r [] (⟨c = 'o', tid, dest⟩ :: pay) with
          | some (kids, pay', ']' :: r') =>
            parseItems r' (Item.mk (c = 'o') kids :: acc) pay'
          | _ => none
        | _ => none
      | _, _ => none
    else some (acc.reverse, pay, cs)
  | [] => some (acc.reverse, pay, [])

def parseForest (s : String) : Option (List Item × List PItem) :=
  if s = "_" then some ([], []) else
  match parseItems s.toList [] [] with
  | some (items, pay, []) => some (items, pay.reverse)
  | _ => none

/-- the authored title as code points -/
def titleCps (tid : Nat) : List Nat :=
  let d := (toString tid).toList.map Char.toNat
  match tid % 8 with
  | 0 => 84 :: d
  | 1 => [83, 101, 99, 32, 40] ++ d ++ [41]
  | 2 => [66, 92] ++ d
  | 3 => [220, 128512] ++ d
  | 4 => d ++ [41, 40]
  | 5 => d ++ [13, 10, 9, 120, 13]
  | 6 => []
  | _ => [76] ++ d ++ [35, 47, 60, 62, 91, 93, 123, 125, 37, 92, 41] ++ List.replicate 120 120

/-- `Object::text_string` (objects/primitive.rs), which `outline_item_to_dict` uses for /Title:
TAB, LF and the printable ASCII range stay a literal string, anything else becomes
BOM + UTF-16BE -/
def plainOk (c : Nat) : Bool := c = 9 || c = 10 || (32 ≤ c && c ≤ 126)

def utf16be (cps : List Nat) : List Nat :=
  cps.flatMap fun c =>
    if c < 65536 then [c / 256, c % 256]
    else
      let v := c - 65536
      let hi := 55296 + v / 1024
      let lo := 56320 + v % 1024
      [hi / 256, hi % 256, lo / 256, lo % 256]

def textString (cps : List Nat) : List Nat :=
  if cps.all plainOk then cps else 254 :: 255 :: utf16be cps

def titleOf (tid : Nat) : List Nat := textString (titleCps tid)

/-- how a reader decodes a text string (ISO 32000-1 §7.9.2.2): after `FE FF` UTF-16BE (surrogate
pairs combined), otherwise PDFDocEncoding — only its ASCII-agreeing part is accepted here -/
def decodeUnits : List Nat → Option (List Nat)
  | [] => some []
  | [_] => none
  | a :: b :: rest => (decodeUnits rest).map fun r => (a * 256 + b) :: r

def combineSurrogates : List Nat → Option (List Nat)
  | [] => some []
  | u :: rest =>
    if 55296 ≤ u ∧ u < 56320 then
      match rest with
      | l :: rest' =>
        if 56320 ≤ l ∧ l < 57344 then
          (combineSurrogates rest').map fun r => (65536 + (u - 55296) * 1024 + (l - 56320)) :: r
        else none
      | [] => none
    else if 56320 ≤ u ∧ u < 57344 then none
    else (combineSurrogates rest).map fun r => u :: r

def readTextString : List Nat → Option (List Nat)
  | 254 :: 255 :: rest => (decodeUnits rest).bind combineSurrogates
  | bs => if bs.all plainOk then some bs else none

/-- the written /Title (hex of the string's bytes) reads back as the authored text -/
def titleOk (written : String) (tid : Nat) : Bool :=
  match bytesOfHex? written with
  | some bs => readTextString bs = some (titleCps tid)
  | none => false

/-! ### written destinations: `<page>/<Kind>(p;…)`, p = `null` | millionths; page `r<n>` = reference -/

def showObjParam : DObj → String
  | .null => "null"
  | .real v => toString v
  | .int v => toString (v * 1000000)
  | _ => "?"

def showArr (arr : List DObj) : String :=
  match arr with
  | page :: .name k :: ps =>
    let pg := match page with
      | .int n => toString n
      | .ref r => s!"r{r}"
      | _ => "?"
    s!"{pg}/{k}(" ++ ";".intercalate (ps.map showObjParam) ++ ")"
  | _ => "?"

def showDest : Option Dest → String
  | none => "-"
  | some d => showArr d.toArray

/-- a `Destination` in request syntax with all parameters spelled out -/
def showDestReq (d : Dest) : String :=
  let pg := match d.page with
    | .num n => toString n
    | .ref r => s!"r{r}"
  let sp : Option Int → String
    | none => "n"
    | some v => toString v
  let (k, ps) : String × List (Option Int) := match d.ty with
    | .xyz l t z => ("X", [l, t, z])
    | .fit => ("F", [])
    | .fitH t => ("H", [t])
    | .fitV l => ("V", [l])
    | .fitR l b r t => ("R", [some l, some b, some r, some t])
    | .fitB => ("B", [])
    | .fitBH t => ("G", [t])
    | .fitBV l => ("W", [l])
  s!"{pg}{k}(" ++ ";".intercalate (ps.map sp) ++ ")"

/-- the array a written destination string denotes -/
def parseWritten (s : String) : Option (List DObj) :=
  match s.splitOn "/" with
  | [pg, rest] =>
    let page : Option DObj := match pg.toList with
      | 'r' :: ds => (String.ofList ds).toNat?.map DObj.ref
      | cs => (parseIntChars cs).map DObj.int
    match page, rest.splitOn "(" with
    | some page, [k, ps] =>
      match ps.toList.reverse with
      | ')' :: inner =>
        let inner := String.ofList inner.reverse
        let params : Option (List DObj) :=
          if inner = "" then some [] else
          (inner.splitOn ";").mapM fun p =>
            if p = "null" then some DObj.null else (parseIntChars p.toList).map DObj.real
        params.map fun ps => page :: DObj.name k :: ps
      | _ => none
    | _, _ => none
  | _ => none

/-- the written destination, read per Table 151, is the authored one -/
def destOk (written : String) (authored : Option Dest) : Bool :=
  match authored with
  | none => written = "-"
  | some d =>
    match parseWritten written with
    | some arr => Spec.readDest arr = some (Spec.ofDest d)
    | none => false

def showOptNat : Option Nat → String
  | none => "-"
  | some n => toString n

def showOptInt : Option Int → String
  | none => "-"
  | some n => toString n

def showRec (r : Rec) (p : PItem) : String :=
  s!"{r.id}:P{r.parent}:p{showOptNat r.prev}:n{showOptNat r.next}:f{showOptNat r.first}:l{showOptNat r.last}:c{showOptInt r.count}:t{hexField (titleOf p.tid)}:d{showDest p.dest}"

def showGraph (g : Root × List Rec) (pay : List PItem) : String :=
  if g.2.isEmpty then "none" else
  "|".intercalate (s!"R:F{showOptNat g.1.first}:L{showOptNat g.1.last}:C{showOptInt g.1.count}" ::
    (List.zip g.2 pay).map fun (r, p) => showRec r p)

/-! ### parsing the implementation's answer -/

def optNat? (s : String) : Option (Option Nat) :=
  if s = "-" then some none else s.toNat?.map some

def optInt? (s : String) : Option (Option Int) :=
  if s = "-" then some none else s.toInt?.map some

def dropTag (s : String) (tag : Char) : Option String :=
  match s.toList with
  | c :: r => if c = tag then some (String.ofList r) else none
  | [] => none

structure IRec where
  r : Rec
  title : String
  dest : String
  deriving Inhabited

def parseIRec (s : String) : Option IRec :=
  match s.splitOn ":" with
  | [id, p, pv, nx, f, l, c, t, d] =>
    match id.toNat?, (dropTag p 'P').bind String.toNat?, (dropTag pv 'p').bind optNat?,
      (dropTag nx 'n').bind optNat?, (dropTag f 'f').bind optNat?, (dropTag l 'l').bind optNat?,
      (dropTag c 'c').bind optInt?, dropTag t 't', dropTag d 'd' with
    | some id, some p, some pv, some nx, some f, some l, some c, some t, some d =>
      some ⟨⟨id, p, pv, nx, f, l, c⟩, t, d⟩
    | _, _, _, _, _, _, _, _, _ => none
  | _ => none

def parseRoot (s : String) : Option Root :=
  match s.splitOn ":" with
  | ["R", f, l, c] =>
    match (dropTag f 'F').bind optNat?, (dropTag l 'L').bind optNat?, (dropTag c 'C').bind optInt? with
    | some f, some l, some c => some ⟨f, l, c⟩
    | _, _, _ => none
  | _ => none

def parseGraph (s : String) : Option (Root × List IRec) :=
  if s = "none" then some (⟨none, none, none⟩, []) else
  match s.splitOn "|" with
  | r :: items =>
    match parseRoot r, items.mapM parseIRec with
    | some r, some is => some (r, is)
    | _, _ => none
  | [] => none

/-! ### the viewer's walk compared with the authored forest -/

/-- pre-order walk of the navigated forest against the authored one; returns the remaining
payload and the list of problems found -/
partial def compareNav (irecs : List IRec) : List Nav → List Item → List PItem →
    Option (List PItem × List String)
  | [], [], pay => some (pay, [])
  | .node id cnt kids :: ns, it :: is, p :: pay =>
    let ir := irecs.find? (·.r.id = id)
    let probs : List String :=
      (match ir with
       | some ir =>
         (if titleOk ir.title p.tid then [] else ["title"]) ++
         (if destOk ir.dest p.dest then [] else ["dest"])
       | none => ["title"]) ++
      (if cnt = Spec.countEntry it then []
       else if cnt = it.countEntryOld then ["count-closed-all-descendants"] else ["count"])
    match compareNav irecs kids it.children pay with
    | none => none
    | some (pay', p1) =>
      match compareNav irecs ns is pay' with
      | none => none
      | some (pay'', p2) => some (pay'', probs ++ p1 ++ p2)
  | _, _, _ => none

def dedup (l : List String) : List String := l.eraseDups

/-! ### named destinations, open action -/

/-- authored `hex(name)=dest` pairs in insertion order -/
def parseNames (s : String) : Option (List (List Nat × Dest)) :=
  (s.splitOn ",").mapM fun e =>
    match e.splitOn "=" with
    | [n, d] =>
      match bytesOfHex? n, parseDestStr d with
      | some n, some (some d) => some (n, d)
      | _, _ => none
    | _ => none

def probeName (authored : List (List Nat)) : List Nat :=
  -- "zz-missing" extended by `z` until it is not an authored name (as the harness does)
  let base := "zz-missing".toList.map Char.toNat
  let rec go (fuel : Nat) (n : List Nat) : List Nat :=
    match fuel with
    | 0 => n
    | fuel + 1 => if authored.contains n then go fuel (n ++ [122]) else n
  go (authored.length + 1) base

/-- ` N:… L:… G:…` as the model predicts them -/
def namesModel (adds : List (List Nat × Dest)) : String :=
  let t := NT.build ltBytes adds
  let n := if t.names.isEmpty then "_" else
    ",".intercalate (t.names.map fun (k, d) => s!"{hexField k}={showArr d.toArray}")
  let l := match t.limits with
    | some (a, b) => s!"{hexField a},{hexField b}"
    | none => "~"
  let keys := (adds.map (·.1)).eraseDups
  let g := ",".intercalate ((keys ++ [probeName keys]).map fun k =>
    match t.get k with
    | some d => showArr d.toArray
    | none => "~")
  s!" N:{n} L:{l} G:{g}"

/-- the written name tree judged against the authored names (§7.9.6, §12.3.2.3): keys strictly
ascending byte-wise, `/Limits` = least and greatest key, exactly the authored names, each
resolving to the destination authored last for it; the library's own lookup agrees -/
def judgeNames (adds : List (List Nat × Dest)) (n l g : String) : String :=
  let pairs : Option (List (List Nat × String)) :=
    if n = "_" then some [] else
    (n.splitOn ",").mapM fun e =>
      match e.splitOn "=" with
      | [k, d] => (bytesOfHex? k).map fun k => (k, d)
      | _ => none
  match pairs with
  | none => "fail:names-unreadable"
  | some pairs =>
    let keys := (adds.map (·.1)).eraseDups
    if ¬ Spec.ascending ltBytes pairs then "fail:names-not-ascending"
    else if pairs.length ≠ keys.length then "fail:names-count"
    else if ¬ keys.all (fun k =>
        match Spec.lookupWritten pairs k, Spec.authored adds k with
        | some w, some d => destOk w (some d)
        | _, _ => false) then "fail:names-resolve"
    else
      let limOk : Bool := match pairs.head?, pairs.getLast? with
        | some a, some b => l == s!"{hexField a.1},{hexField b.1}"
        | _, _ => l == "~"
      if ¬ limOk then "fail:names-limits"
      else
        let gs := g.splitOn ","
        let want := keys ++ [probeName keys]
        if gs.length ≠ want.length then "fail:names-api-lookup"
        else if (List.zip gs want).all (fun (w, k) =>
          match Spec.authored adds k with
          | some d => destOk w (some d)
          | none => w = "~") then "ok" else "fail:names-api-lookup"

def section? (parts : List String) (tag : String) : Option String :=
  (parts.find? (·.startsWith tag)).map fun p => (p.drop tag.length).toString

def handleOutline (forest : String) (names : Option String) (openA : Option String) (impl : String) :
    String × String :=
  match parseForest forest, names.mapM parseNames, openA.mapM (fun a =>
      match a.toList with
      | 'G' :: r => (parseDestStr (String.ofList r)).bind id
      | _ => none) with
  | some (items, pay), some adds, some openD =>
    let total := sizeList items
    let pool := List.range' 1 total
    let code := Impl.write 0 pool items
    let nm := match adds with
      | some a => namesModel a
      | none => ""
    let am := match openD with
      | some d => s!" A:GoTo/{showArr d.toArray}"
      | none => ""
    let model := showGraph code pay ++ nm ++ am
    let parts := impl.splitOn " "
    let implGraph := parts.headD ""
    let oracle : String :=
      match parseGraph implGraph with
      | none => "fail:unreadable-outline"
      | some (root, irecs) =>
        let recs := irecs.map (·.r)
        if items.isEmpty then (if recs.isEmpty then "ok" else "fail:items") else
        if recs.length ≠ total then "fail:items"
        else if root.count ≠ some (Int.ofNat (visibleList items)) then "fail:root-count"
        else
          let fuel := 2 * total + 4
          let nav := match root.first, root.last with
            | some f, some l => navChain recs 0 (some l) fuel (some f) none
            | _, _ => none
          let navProblems : Option (List String) := match nav with
            | none => none
            | some nv => match compareNav irecs nv items pay with
              | some ([], ps) => some ps
              | _ => none
          match navProblems with
          | some ps =>
            let ps := dedup ps
            if ps.isEmpty then "ok" else "fail:" ++ "+".intercalate ps
          | none =>
            -- not navigable as authored.  Is it exactly the defect repaired as C28-F1?
            let spec := Spec.write 0 pool items
            let code := ImplOld.write 0 pool items
            let linkOnly (r : Rec) : Rec := { r with count := none }
            let sameLinksAsCode := root.first = code.1.first ∧ root.last = code.1.last ∧
              recs.map linkOnly = code.2.map linkOnly
            let payloadOk := (List.zip irecs pay).all fun (ir, p) =>
              titleOk ir.title p.tid ∧ destOk ir.dest p.dest
            if sameLinksAsCode ∧ payloadOk ∧ (code.1, code.2.map linkOnly) ≠ (spec.1, spec.2.map linkOnly) then
              -- counts, judged per id (ids are the pre-order positions here)
              let cs := (List.zip recs spec.2).zip code.2 |>.map fun ((r, s), c) =>
                if r.count = s.count then 0 else if r.count = c.count then 1 else 2
              if cs.any (· = 2) then "fail:links+count"
              else if cs.any (· = 1) then "fail:links-sibling-position+count-closed-all-descendants"
              else "fail:links-sibling-position"
            else "fail:links"
    let oracle := if oracle ≠ "ok" then oracle else
      match adds with
      | none => "ok"
      | some a =>
        match section? parts "N:", section? parts "L:", section? parts "G:" with
        | some n, some l, some g => judgeNames a n l g
        | _, _, _ => "fail:named-destinations-missing"
    let oracle := if oracle ≠ "ok" then oracle else
      match openD with
      | none => "ok"
      | some d =>
        match section? parts "A:" with
        | some a =>
          -- `GoTo/<dest>`
          if a.startsWith "GoTo/" ∧ destOk (a.drop 5).toString (some d) then "ok" else "fail:open-action"
        | none => "fail:open-action"
    (model, oracle)
  | _, _, _ => ("bad-request", "na")

/-! ### `dst` / `dsta`: `Destination::to_array` / `from_array` -/

def parseElem (e : String) : Option DObj :=
  if e = "x" then some .null
  else if e = "s" then some .other
  else match e.toList with
    | 'i' :: r => (parseIntChars r).map DObj.int
    | 'r' :: r => (parseIntChars r).map DObj.real
    | 'n' :: r => some (.name (String.ofList r))
    | 'R' :: r => (String.ofList r).toNat?.map DObj.ref
    | _ => none

def showFrom : Option Dest → String
  | some d => "ok:" ++ showDestReq d
  | none => "err"

def handle (req impl : String) : String × String :=
  let opt (s : String) : Option String := if s = "_" then none else some s
  match req.splitOn " " with
  | ["dst", d] =>
    match parseDestStr d with
    | some (some d) =>
      let arr := d.toArray
      let model := showArr arr ++ "|" ++ showFrom (Dest.fromArray arr)
      let oracle := match impl.splitOn "|" with
        | [w, back] =>
          if ¬ destOk w (some d) then "fail:dest-array"
          else if back ≠ "ok:" ++ showDestReq d then "fail:dest-roundtrip" else "ok"
        | _ => "fail:dest-array"
      (model, oracle)
    | _ => ("bad-request", "na")
  | ["dsta", elems] =>
    match (if elems = "_" then some [] else (elems.splitOn ",").mapM parseElem) with
    | some arr =>
      let model := showFrom (Dest.fromArray arr)
      -- the spec side speaks only about arrays of one of the eight forms of Table 151
      let oracle := match Spec.readDest arr with
        | some (page, k, vs) =>
          let pg : Option DPage := match page with
            | .int n => if 0 ≤ n ∧ n < 4294967296 then some (.num n.toNat) else none
            | .ref r => some (.ref r)
            | _ => none
          let kc : Char := if k = "XYZ" then 'X' else if k = "Fit" then 'F' else if k = "FitH" then 'H'
            else if k = "FitV" then 'V' else if k = "FitR" then 'R' else if k = "FitB" then 'B'
            else if k = "FitBH" then 'G' else 'W'
          match pg.bind (fun pg => mkDest pg kc vs) with
          | some d => if impl = "ok:" ++ showDestReq d then "ok" else "fail:dest-read"
          | none => "na"
        | none => "na"
      (model, oracle)
    | none => ("bad-request", "na")
  | [op, _np, forest] =>
    if op = "out" ∨ op = "outb" then handleOutline forest none none impl else ("bad-request", "na")
  | [op, _np, forest, names] =>
    if op = "out" ∨ op = "outb" then handleOutline forest (opt names) none impl else ("bad-request", "na")
  | [op, _np, forest, names, openA] =>
    if op = "out" ∨ op = "outb" then handleOutline forest (opt names) (opt openA) impl
    else ("bad-request", "na")
  | _ => ("bad-request", "na")

def main : IO Unit := runDriver handle
